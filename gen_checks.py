#!/usr/bin/env python3
# Generates /verif/checks.json (what ./check runs for each property and tier).
import json

COMMON_ASSUME = [
 "sequential consistency at the engine's scheduling granularity; Go data-race semantics inside a segment are not modelled",
 "z3 4.8.12 answers are trusted; an unknown/error answer makes the check exit 2",
 "stub socket zzMsgs: frames are delivered whole; ReadMessage places a frame in the caller's buffer when it fits, else in a fresh slice; after Close reads fail with io.EOF",
]
SCHED = "gran 0 = goroutine switches only where a goroutine blocks, yields (runtime.Gosched, time-consuming stub I/O) or exits; all such macro-step interleavings are explored (sleep sets prune only commuting orders). gran 1 = additionally before every Lock/channel/WaitGroup/Cond operation and go statement, with at most P preemptions"

def run(h, P=0, gran=0, params=None, budget=600, labels=None, reach=None, native=None, maporder=False, timers=None, reuse=None):
    r = {"harness": h, "P": P, "gran": gran, "budget_s": budget}
    if params: r["params"] = params
    if labels: r["labels"] = labels
    if reach: r["reach"] = reach
    if native is None:
        native = "data" if (h.startswith("C07") or h.startswith("C17") or h in ("C08dec", "C08big", "C11m", "FRAM")) else "stress"
    if native: r["native"] = native
    if maporder: r["maporder"] = True
    if timers is not None: r["timers"] = timers
    if reuse is not None: r["reuse"] = reuse
    return r

CLI_C01 = ["reply-of-own-args", "no-error"]
SRV_C01 = ["reply-of-own-args", "executed-with-own-args", "reply-no-error"]
SRV_C04 = ["one-response-per-request", "answered-exactly-once", "executed-with-own-args", "no-extra-or-missing-execution", "ping-empty", "reply-of-own-args", "reply-no-error"]
SRV_C05 = ["responses-in-arrival-order", "pipelined-no-overlap", "pipelined-execution-order"]
SRV_C06 = ["handler-error-text", "unknown-method-text", "undecodable-args-text", "answered-exactly-once", "reply-of-own-args"]
SRV_ALL = sorted(set(SRV_C04 + SRV_C05 + SRV_C06 + ["handler-args-stable", "server-goroutines-exit"]))

C = {}

C["C01"] = dict(level="other",
 explanation="Symbolic execution of the real client (Conn.Go/send/recv/read/finishCall + clientCodec) and server (ServeCodec/ServeRequest/handleRequest/callService/sendResponse + serverCodec) code from go/ssa with symbolic payload bytes: every completed call's reply must equal the reply a correct server computes from that call's own argument bytes ('R'+args), for every order in which responses arrive / requests are batched and every explored interleaving; plus the real framing layer (hslam/socket messages) for every fragmentation of the byte stream. Equalities of symbolic byte strings are discharged by z3.",
 rule="one case = one feasible path (environment choices x scheduling decisions x symbolic branches); non-trivial = needed a solver query or a scheduling decision",
 assumptions=COMMON_ASSUME + ["funcs (reflection) replaced by a model rebuilt from go/types of the registered service", "body codec = aliasing bytes codec (decoded value aliases its input like BYTES/pb/code)"],
 stubs=["zzMsgs (socket.Messages)", "funcs model", "zzBytesCodec (body codec)", "hslam/log (empty bodies)"],
 bounds={"calls per connection": "quick 2, thorough 3", "payload": "1 symbolic byte per call (client), 1 or 10 bytes (server)", "initial sequence number": "quick 0; thorough: any 64-bit value (symbolic)", "framing": "2 frames, payloads 0..2 and 1..2 bytes, every chunking of the stream", "schedules": SCHED + "; gran 3 (SRVw only) = preemption before every call of a function with a body", "pool policy": "sync.Pool LIFO reuse (maximal aliasing)"},
 outside=["TCP itself, the auto-batching writer of hslam/writer", "more outstanding calls than the bound", "Transport/Client wrappers (address routing is C14/C16)", "payloads larger than the stated sizes (header codecs at all boundaries: C07)"],
 runs={"quick": [run("CLIm", labels=["reply-of-own-args", "no-error", "arguments-untouched", "request-sent-as-issued", "panic"]), run("CLIm", params={"clim.pairs": 1}, labels=["reply-of-own-args", "no-error", "arguments-untouched", "request-sent-as-issued", "panic"]), run("CLI", labels=CLI_C01), run("CLIb", labels=CLI_C01), run("SRV", labels=SRV_C01), run("SRV", params={"srv.nocopy": 1, "srv.N": 3, "srv.kinds": 2, "srv.arglens": 1, "srv.concrete": 1, "srv.bufsizes": 2}, labels=SRV_C01), run("SRVn", labels=SRV_C01 + ["one-response-per-request"]), run("STR2", labels=["unary-call-unaffected-by-streams", "messages-in-order-unmodified", "all-messages-delivered"]), run("SRVw", P=1, gran=3), run("FRAM")],
       "thorough": [run("CLIm", params={"clim.K": 5}, labels=["reply-of-own-args", "no-error", "arguments-untouched", "request-sent-as-issued", "panic"], budget=1500), run("CLIm", params={"clim.pairs": 1}, labels=["reply-of-own-args", "no-error", "arguments-untouched", "request-sent-as-issued", "panic"]), run("SRVn", params={"srvn.full": 1}, labels=SRV_C01 + ["one-response-per-request"], budget=1500), run("CLI", params={"cli.K": 3}, labels=CLI_C01, budget=900), run("CLI", params={"cli.symseq": 1}, labels=CLI_C01, budget=900), run("SRV", params={"srv.N": 3, "srv.kinds": 3, "srv.arglens": 1, "srv.bufsizes": 1}, labels=SRV_C01, budget=1200), run("SRV", params={"srv.nocopy": 1, "srv.N": 3, "srv.kinds": 3, "srv.arglens": 1, "srv.bufsizes": 2}, labels=SRV_C01, budget=1500), run("CLIb", params={"clib.K": 4}, labels=CLI_C01, budget=1200), run("FRAM")]})

C["C02"] = dict(level="other",
 explanation="Symbolic execution of the real Conn code over the stub socket: K asynchronous calls; the environment delivers a bounded script of frames whose sequence numbers are chosen freely (own, duplicate, unknown), with or without error text, a write may fail, the peer may disconnect, the read may fail, the client may Close; every macro-step interleaving is explored. In every terminal state each call's Done channel holds the call exactly once. Each violation is attributed to the set of code sites that signalled the call (watch on (*Call).done).",
 rule="one case = one feasible path (environment script x fault choice x mode x schedule); all distinct by construction",
 assumptions=COMMON_ASSUME + ["Done channels have room (capacity 2 per call / 10 shared)"],
 stubs=["zzMsgs (socket.Messages)", "zzBytesCodec (body codec)"],
 bounds={"calls": "2", "frames": "quick 2, thorough 3", "write faults": "at most 1", "modes": "default, directIO, client pipelining", "schedules": SCHED},
 outside=["Done channels without room", "more calls/frames than the bound", "schedules needing preemption inside a lock-free segment (thorough runs gran 1, P=1 on a smaller script)"],
 runs={"quick": [run("CLIm", labels=["other-connection-unaffected", "no-goroutine-stuck", "panic", "no-error", "ping-ok", "stream-close-ok", "stream-open-ok"]), run("CLIm", params={"clim.pairs": 1}, labels=["other-connection-unaffected", "no-goroutine-stuck", "panic", "no-error", "ping-ok", "stream-close-ok", "stream-open-ok"]), run("C02", labels=["exactly-once", "panic"]), run("CLI", labels=["each-call-signalled-once"]), run("C19", labels=["sibling-gets-own-reply", "later-call-gets-own-reply", "callwithcontext-returns"]), run("C02r", P=1, gran=1, labels=["exactly-once", "outstanding-call-completes", "outstanding-call-fails", "no-goroutine-stuck", "panic"])],
       "thorough": [run("CLIm", params={"clim.K": 5}, labels=["other-connection-unaffected", "no-goroutine-stuck", "panic", "no-error", "ping-ok", "stream-close-ok", "stream-open-ok"], budget=1500), run("CLIm", params={"clim.pairs": 1}, labels=["other-connection-unaffected", "no-goroutine-stuck", "panic", "no-error", "ping-ok", "stream-close-ok", "stream-open-ok"]), run("C02", params={"c02.F": 3}, labels=["exactly-once", "panic"], budget=1500), run("C02", P=1, gran=1, params={"c02.F": 1}, labels=["exactly-once", "panic"], budget=1500), run("C02r", P=2, gran=1, labels=["exactly-once", "outstanding-call-fails", "no-goroutine-stuck", "panic"], budget=900)]})

C["C03"] = dict(level="other",
 explanation="Symbolic execution of the real Conn code: K blocking callers (Call or Ping), a correct server answers the first A requests and the connection is then cut at once (peer EOF / read error / local Close); a late call follows. Terminal-state assertions: no caller is blocked, unanswered calls fail (ErrShutdown for an orderly end), answered calls succeed with their own reply, the late call fails with ErrShutdown without writing, every goroutine exits.",
 rule="one case = one feasible path (caller kinds x answered count x cut kind x mode x schedule)",
 assumptions=COMMON_ASSUME + ["'bounded time' is rendered as 'not blocked in any terminal state'", "cuts are at frame granularity (n whole frames, then the read fails); byte-level cuts are the framing layer's business (C01 FRAM run)"],
 stubs=["zzMsgs (socket.Messages)", "zzBytesCodec"],
 bounds={"callers": "2 of either kind (thorough: 3 plain callers)", "cut": "after 0..K responses", "modes": "default, directIO, client pipelining", "schedules": SCHED},
 outside=["wall-clock bounds", "TLS/ws framing"],
 runs={"quick": [run("CLI", params={"cli.cut": 1, "cli.partial": 1}, labels=["reply-of-own-args", "no-error", "unanswered-call-fails-with-ErrShutdown", "no-goroutine-stuck", "each-call-signalled-once", "error-text-of-own-call"]), run("C03"), run("STRc", labels=["reader-unblocked", "blocked-read-returns-shutdown", "open-fails-when-connection-ends-first"]), run("C02r", labels=["outstanding-call-completes", "outstanding-call-fails", "no-goroutine-stuck"]), run("C02r", P=1, gran=1, labels=["outstanding-call-completes", "outstanding-call-fails", "no-goroutine-stuck"])], "thorough": [run("C03", params={"c03.K": 3, "c03.pings": 0}, budget=1800), run("STRc", P=1, gran=1, params={"str.N": 1, "str.badwrite": 0}, labels=["reader-unblocked", "blocked-read-returns-shutdown"], budget=600)]})

C["C04"] = dict(level="other",
 explanation="Symbolic execution of the real server path ServeCodec -> ServeRequest -> handleRequest -> readRequestBody -> callService -> sendResponse with the real serverCodec: N request frames of every kind (each handler shape, failing handler, unknown method, ping), symbolic argument bytes, all server modes (pipelining x directIO x context buffer x buffer size), frames arriving together or one by one; the execution log must contain exactly one entry per executable request with that request's own argument bytes, pings none, and the write log exactly one response per request with its sequence number.",
 rule="one case = one feasible path (request kinds x modes x batching x schedule x symbolic branches on argument equality)",
 assumptions=COMMON_ASSUME + ["funcs (reflection) replaced by a model rebuilt from go/types", "the peer disconnects only after the server has gone quiet (live connection)"],
 stubs=["zzMsgs", "funcs model", "zzBytesCodec", "hslam/log"],
 bounds={"requests": "quick 2, thorough 3", "args": "1 or 10 symbolic bytes", "modes": "pipelining x directIO x shared x bufsize{8,64}", "schedules": SCHED},
 outside=["handler bodies and reflection internals", "poll mode (C05 SRVp and stream harnesses only)", "Client.Call never retries: covered through the CLT harness's one-roundtrip-per-call label under C16"],
 runs={"quick": [run("CLIm", labels=["request-sent-as-issued", "reply-of-own-args", "panic"]), run("CLIm", params={"clim.pairs": 1}, labels=["request-sent-as-issued", "reply-of-own-args", "panic"]), run("SRV", params={"srv.kinds": 8}, labels=SRV_C04 + ["rejected-request-not-answered"]), run("SRV", params={"srv.N": 3, "srv.kinds": 3, "srv.menu": 1}, labels=SRV_C04 + ["rejected-request-not-answered", "panic"]), run("SRVn", labels=["reply-of-own-args", "one-response-per-request"]), run("SRVw", P=1, gran=3), run("TRretry")], "thorough": [run("CLIm", params={"clim.K": 5}, labels=["request-sent-as-issued", "reply-of-own-args", "panic"], budget=1500), run("CLIm", params={"clim.pairs": 1}, labels=["request-sent-as-issued", "reply-of-own-args", "panic"]), run("SRVn", params={"srvn.full": 1}, labels=["reply-of-own-args", "one-response-per-request"], budget=1500), run("SRV", params={"srv.N": 3, "srv.kinds": 8, "srv.arglens": 1, "srv.bufsizes": 1}, labels=SRV_C04 + ["rejected-request-not-answered"], budget=3000), run("TRretry"), run("TRretry", P=1, gran=1)]})

C["C05"] = dict(level="other",
 explanation="Server: SRV harness with pipelining on and handlers that yield in the middle: executions never overlap, execution order and response order (pings excepted: they are not executed and may be answered by the decode worker) equal arrival order. Client: CLI harness with SetPipelining: calls issued by one goroutine on a shared Done channel must be signalled in issue order for every mix of success and server-reported error.",
 rule="one case = one feasible path",
 assumptions=COMMON_ASSUME,
 stubs=["zzMsgs", "funcs model", "zzBytesCodec"],
 bounds={"requests / calls": "2 (thorough 3)", "schedules": SCHED},
 outside=["ping responses relative to call responses", "write failures / connection loss in the client order (C02 harness covers completion, not order)"],
 runs={"quick": [run("CLI", params={"cli.cut": 1, "cli.partial": 1}, labels=["pipelined-completion-order", "pipelined-wire-order", "each-call-signalled-once"], maporder=True), run("SRV", params={"srv.pipelining": 1, "srv.cut": 1, "srv.kinds": 4}, labels=SRV_C05 + ["one-response-per-request", "no-extra-or-missing-execution"]), run("SRV", params={"srv.pipelining": 1}, labels=SRV_C05), run("CLI", params={"cli.forms": 2}, labels=["pipelined-completion-order", "pipelined-wire-order"]), run("SRVp", labels=SRV_C05 + ["one-response-per-request", "no-extra-or-missing-execution"]), run("SRVp", P=1, gran=1, labels=SRV_C05 + ["one-response-per-request", "no-extra-or-missing-execution"], budget=300), run("SRVp2")],
       "thorough": [run("CLI", params={"cli.cut": 1, "cli.partial": 1, "cli.K": 3}, labels=["pipelined-completion-order", "pipelined-wire-order", "each-call-signalled-once"], budget=1800), run("SRV", params={"srv.pipelining": 1, "srv.cut": 1, "srv.N": 3, "srv.kinds": 3}, labels=SRV_C05 + ["one-response-per-request", "no-extra-or-missing-execution"], budget=1500), run("SRV", params={"srv.pipelining": 1, "srv.N": 3, "srv.kinds": 6, "srv.arglens": 1, "srv.bufsizes": 1}, labels=SRV_C05, budget=1500), run("CLI", params={"cli.K": 3}, labels=["pipelined-completion-order"], budget=900), run("SRVp", P=2, gran=1, params={"srv.N": 2}, labels=SRV_C05 + ["one-response-per-request", "no-extra-or-missing-execution"], budget=1500), run("SRVp", P=1, gran=1, params={"srv.N": 3, "srvp.yield": 1}, labels=SRV_C05 + ["one-response-per-request", "no-extra-or-missing-execution"], budget=1500)]})

C["C06"] = dict(level="other",
 explanation="Client: for a response frame with error text E exactly the call with that sequence number fails, Error.Error() equals E byte for byte when read after all further frames have been processed (pool reuse), Reply is untouched, the neighbour call gets its own reply. Server: every failure path (handler error, unknown method, undecodable arguments) yields exactly one response with the server-side text. A request that cannot be encoded fails only that call and NumCalls returns to its previous value.",
 rule="one case = one feasible path",
 assumptions=COMMON_ASSUME + ["error texts are short concrete strings; the byte-exact transport of arbitrary text through the header codecs is C07"],
 stubs=["zzMsgs", "funcs model", "zzBytesCodec"],
 bounds={"calls": "2 (thorough 3)", "schedules": SCHED, "pool policy": "LIFO reuse"},
 outside=["json header (copies strings)", "reply marshal errors"],
 runs={"quick": [run("CLIm", labels=["refused-stream-open-reports-server-error", "no-error", "reply-of-own-args", "panic", "other-connection-unaffected", "no-goroutine-stuck"]), run("CLIm", params={"clim.pairs": 1}, labels=["refused-stream-open-reports-server-error", "no-error", "reply-of-own-args", "panic", "other-connection-unaffected", "no-goroutine-stuck"]), run("CLI", params={"cli.encoders": 3}, labels=["error-text-of-own-call", "reply-untouched-on-error", "no-error", "reply-of-own-args"]), run("SRV", params={"srv.kinds": 7}, labels=SRV_C06), run("SRV", params={"srv.kinds": 3, "srv.menu": 2, "srv.encoders": 3, "srv.concrete": 1}, labels=SRV_C06 + ["unencodable-reply-text"]), run("C06w"), run("C06x"), run("STRs", params={"str.W": 2, "str.R": 1}, labels=["unary-call-unaffected-by-streams", "pushes-written", "pushes-in-order-unmodified"])],
       "thorough": [run("CLIm", params={"clim.K": 5}, labels=["refused-stream-open-reports-server-error", "no-error", "reply-of-own-args", "panic", "other-connection-unaffected", "no-goroutine-stuck"], budget=1500), run("CLIm", params={"clim.pairs": 1}, labels=["refused-stream-open-reports-server-error", "no-error", "reply-of-own-args", "panic", "other-connection-unaffected", "no-goroutine-stuck"]), run("CLI", params={"cli.K": 3}, labels=["error-text-of-own-call", "reply-untouched-on-error", "no-error", "reply-of-own-args"], budget=900), run("SRV", params={"srv.kinds": 7, "srv.N": 3, "srv.arglens": 1, "srv.bufsizes": 1}, labels=SRV_C06, budget=2400), run("C06w"), run("C06x"), run("C06x", P=1, gran=1, budget=900)]})

C["C07"] = dict(level="other",
 explanation="Bounded symbolic execution of the real header encoders/decoders (default pbRequest/pbResponse + checkBuffer, 'pb' = GOGOPBCodec wrapper, 'code' request/response, upgrade byte, and the clientCodec/serverCodec glue) from go/ssa: field contents, the 64-bit sequence number (symbolic inside each varint size class), stale scratch-buffer contents and flags are z3 bit-vector variables; field lengths and capacities are case-split over the stated menu. Obligations per path: no panic, decode(encode(m)) = m, output byte-equal to an independent reference encoder of the documented formats, in-place when the buffer suffices and nothing written past Size().",
 rule="one case = one feasible path (size class of Seq x field-length choice x scratch capacity relative to Size()); non-trivial = needed at least one solver query",
 assumptions=["field lengths restricted to the menu stated under bounds", "z3 4.8.12 answers are trusted; unknown/error answers make the check exit 2"],
 stubs=["zzMsgs for the glue harness"],
 bounds={"seq": "all 2^64 values (10 varint size classes + 0; glue harness: classes 0,1,2,10)", "field lengths": "quick: 0..2,127,128 per field with every Seq class, plus 0,1,127,128,16383,16384 with Seq classes 0,1,2,10; thorough: 0..3,127,128,16383,16384 with every Seq class", "scratch capacity": "nil, Size()-1, Size(), Size()+3 with symbolic stale contents", "pool buffer sizes (glue)": "8, 64, 512", "unwind": "symbolically decided loop heads: at most 40 visits, with unwinding assertion"},
 outside=["json header encoder (encoding/json via reflection: not encodable with this engine)", "field lengths outside the menu (in particular > 16384)", "unknown field numbers"],
 runs={"quick": [run("C07upg"), run("C07pbq"), run("C07pbr"), run("C07gogo"), run("C07codeq"), run("C07coder"), run("C07glue", params={"c07.small": 1, "c07.seqmode": 1, "c07.b128": 1})] +
               [run(h, params={"c07.small": 1, "c07.seqmode": 1, "c07.b16k": 1}) for h in ("C07pbq", "C07pbr", "C07codeq", "C07coder")],
       "thorough": [run("C07upg"), run("C07pbq", params={"c07.small": 3, "c07.b16k": 1}, budget=2400), run("C07pbr", params={"c07.small": 3, "c07.b16k": 1}, budget=1200), run("C07gogo", params={"c07.small": 2, "c07.b16k": 1}, budget=2400), run("C07codeq", params={"c07.small": 3, "c07.b16k": 1}, budget=2400), run("C07coder", params={"c07.small": 3, "c07.b16k": 1}, budget=1200), run("C07glue", params={"c07.small": 2, "c07.seqmode": 1}, budget=2400)]})

C["C08"] = dict(level="other",
 explanation="(A) each header decoder on every frame of length 0..N with all bytes symbolic; (B) the real server dispatch on a well-formed request whose upgrade byte (all 256 values, symbolic), method (every handler shape, unknown, empty) and arguments are adversarial, followed by a well-formed probe that must be answered correctly; (C) the client reader on every frame of length 0..N with a call outstanding, then a well-formed response that must still be served; (D) bursts of requests followed at once by the peer's disconnect in every non-poll server mode. Any feasible path on which a goroutine panics without recovery is a violation (index, slice bounds, nil dereference, type assertion, reflect misuse and sync.WaitGroup misuse panics are modelled).",
 rule="one case = one feasible path; distinct by construction",
 assumptions=COMMON_ASSUME + ["funcs/reflect modelled: Value.Interface and Call panic on the zero Value as reflect does"],
 stubs=["zzMsgs", "funcs model", "zzBytesCodec (returns an error for a value of the wrong type, like GOGOPB/CODE/MSGP codecs)"],
 bounds={"frame length": "decoders: quick 0..4, thorough 0..6; client reader: 0..3 (thorough 4) with 8-byte read buffers", "burst": "2 (thorough 3) requests", "schedules": SCHED},
 outside=["the framing layer's own varint-overflow panic and allocation of a peer-announced length", "memory exhaustion", "TLS/ws handshakes", "poll-mode teardown"],
 runs={"quick": [run("SRV", labels=["panic"]), run("C08dec"), run("C08big"), run("C08srv", labels=["panic", "probe-reply", "probe-answered-once"]), run("C08seq", params={"seq.N": 3}), run("C08cli"), run("C08down"), run("C08down", P=1, gran=1), run("C02r", P=1, gran=1, labels=["panic"])],
       "thorough": [run("SRV", params={"srv.cut": 1, "srv.arglens": 1}, labels=["panic"], budget=1500), run("C08dec", params={"c08.N": 6}, budget=1500), run("C08big"), run("C08seq", params={"seq.N": 3}, budget=1500), run("C08srv", labels=["panic", "probe-reply", "probe-answered-once"]), run("C08cli", params={"c08.N": 4}, budget=1500), run("C08down", params={"down.N": 3}), run("C08down", P=2, gran=1, budget=2400), run("C02r", P=2, gran=1, labels=["panic"], budget=900)]})

C["C09"] = dict(level="other",
 explanation="Client side: the real NewStream / stream branches of send and read / readStream queue / stream.ReadMessage against an environment that acknowledges the open request and pushes N messages with symbolic contents without pausing after the acknowledgement; the sequence returned by ReadMessage must equal the sequence pushed. Server side: the real ServeRequest/callService stream branches and the stream write closure with a handler that writes and reads in either order; the wire must carry the acknowledgement before the first push and the pushes in order, the handler must read exactly what the client sent.",
 rule="one case = one feasible path",
 assumptions=COMMON_ASSUME + ["funcs model"],
 stubs=["zzMsgs", "stub listener/socket for Server.listen", "funcs model", "zzBytesCodec"],
 bounds={"streams": "1", "messages per direction": "client harness 2 (thorough 3); server harness 1 (thorough 2)", "schedules": SCHED},
 outside=["several streams on one connection", "interleaving with unary calls beyond the one made after close"],
 runs={"quick": [run("STR2", labels=["all-messages-delivered", "messages-in-order-unmodified", "stream-opened", "unary-call-unaffected-by-streams"]), run("STRc", labels=["all-messages-delivered", "message-after-failed-write-delivered", "messages-in-order-unmodified", "stream-opened", "open-request-flags"]), run("STRs", params={"str.W": 2, "str.R": 2}, labels=["handler-received-every-message", "handler-messages-in-order-unmodified", "pushes-written", "pushes-in-order-unmodified", "ack-precedes-first-push", "unary-call-unaffected-by-streams"])],
       "thorough": [run("STRc", params={"str.N": 3}, labels=["all-messages-delivered", "message-after-failed-write-delivered", "messages-in-order-unmodified", "stream-opened", "open-request-flags"]), run("STRs", params={"str.W": 2, "str.R": 2}, labels=["handler-received-every-message", "handler-messages-in-order-unmodified", "pushes-written", "pushes-in-order-unmodified", "ack-precedes-first-push"], budget=900)]})

C["C10"] = dict(level="other",
 explanation="Same stream harnesses as C09, asserting shutdown behaviour in terminal states: after a client-side Close of the stream, peer EOF or local Close of the connection, the blocked ReadMessage returns ErrStreamShutdown, later reads/writes return ErrStreamShutdown, a unary call still works after closing one stream; on the server (poll and non-poll modes through the real Server.listen closures) the handler returns once the stream is closed or the connection is gone and no goroutine is left.",
 rule="one case = one feasible path",
 assumptions=COMMON_ASSUME + ["netpoll is replaced by a stub that calls the two closures listen passes to ServeMessages (opened once, serve repeatedly until it fails)"],
 stubs=["zzMsgs", "stub listener/socket", "funcs model"],
 bounds={"streams": "1", "schedules": SCHED},
 outside=["sibling streams", "real netpoll event loop"],
 runs={"quick": [run("C08seq", labels=["teardown-completes-after-any-frame-sequence"]), run("STRe", P=1, gran=1), run("STRc", labels=["reader-unblocked", "blocked-read-returns-shutdown", "read-after-shutdown", "write-after-shutdown", "stream-close-returns", "unary-call-after-stream-close", "close-request-flags"]), run("STRs", labels=["handler-returns-after-stream-or-connection-end", "handler-returns-after-stream-close", "no-goroutine-left"]), run("STRc", P=1, gran=1, params={"str.N": 1, "str.badwrite": 0}, labels=["reader-unblocked", "blocked-read-returns-shutdown", "read-after-shutdown", "write-after-shutdown", "stream-close-returns"], budget=300), run("STRc", params={"str.readers": 2, "str.N": 1, "str.badwrite": 0}, labels=["reader-unblocked", "blocked-read-returns-shutdown", "open-fails-when-connection-ends-first"])],
       "thorough": [run("C08seq", params={"seq.N": 3}, labels=["teardown-completes-after-any-frame-sequence"], budget=1500), run("STRe", P=2, gran=1, budget=1500), run("STRc", P=1, gran=1, labels=["reader-unblocked", "blocked-read-returns-shutdown", "read-after-shutdown", "write-after-shutdown", "stream-close-returns"], budget=1500), run("STRs", P=1, gran=1, labels=["handler-returns-after-stream-or-connection-end", "handler-returns-after-stream-close", "no-goroutine-left"], budget=1500), run("STRc", params={"str.N": 3}, labels=["reader-unblocked", "blocked-read-returns-shutdown", "read-after-shutdown", "write-after-shutdown", "stream-close-returns", "unary-call-after-stream-close", "close-request-flags"]), run("STRs", params={"str.W": 2, "str.R": 2}, labels=["handler-returns-after-stream-or-connection-end", "handler-returns-after-stream-close", "no-goroutine-left"], budget=900)]})

C["C11"] = dict(level="other",
 explanation="The byte slices the library hands to user code are compared, after further traffic through the same (LIFO-reused) pools, with the symbolic bytes they had at hand-over: handler arguments (SRV harness, copy modes), replies (CLI harness; context buffer: C19 harness), stream messages and caller-supplied buffers in stream.ReadMessage (C11m: capacity smaller/equal/larger than the message; bytes beyond the reported length must keep their symbolic stale value). Aliasing is exact in the engine (slices share backing arrays), so a missing copy shows up as a failed equality.",
 rule="one case = one feasible path",
 assumptions=COMMON_ASSUME + ["body codec aliases its input (worst case)", "sync.Pool policy: LIFO reuse"],
 stubs=["zzMsgs", "funcs model", "zzBytesCodec"],
 bounds={"message length": "1..3 (C11m), 1 or 10 (handler args)", "further traffic": "2 messages / 1-2 frames"},
 outside=["NoCopy modes (excluded by the property)", "user code calling FreeContextBuffer"],
 runs={"quick": [run("CLIb", labels=["context-buffer-untouched-by-later-calls", "reply-stable-after-later-traffic"]), run("CLIm", labels=["arguments-untouched"]), run("C11m"), run("SRV", labels=["handler-args-stable"]), run("SRV", params={"srv.N": 3, "srv.kinds": 1, "srv.exactfit": 1}, labels=["handler-args-stable"]), run("C11c"), run("STRc", labels=["messages-in-order-unmodified"]), run("STRs", params={"str.W": 2, "str.R": 2}, labels=["handler-messages-in-order-unmodified", "pushes-in-order-unmodified"]), run("CLI", labels=["reply-of-own-args"]), run("C19", labels=["own-reply", "reply-placed-in-context-buffer", "nothing-written-past-reply-length", "small-buffer-untouched"])],
       "thorough": [run("CLIb", params={"clib.K": 4}, labels=["context-buffer-untouched-by-later-calls", "reply-stable-after-later-traffic"], budget=1500), run("C11m"), run("SRV", params={"srv.N": 3, "srv.kinds": 4, "srv.arglens": 1, "srv.bufsizes": 1}, labels=["handler-args-stable"], budget=1500), run("SRV", params={"srv.N": 3, "srv.kinds": 2, "srv.exactfit": 1}, labels=["handler-args-stable"], budget=1500), run("C11c", params={"c11c.N": 4}, budget=900), run("STRc", params={"str.N": 3}, labels=["messages-in-order-unmodified"]), run("STRs", params={"str.W": 2, "str.R": 3}, labels=["handler-messages-in-order-unmodified", "pushes-in-order-unmodified"]), run("CLI", params={"cli.K": 3}, labels=["reply-of-own-args"], budget=900), run("C19", labels=["own-reply", "reply-placed-in-context-buffer", "nothing-written-past-reply-length", "small-buffer-untouched"])]})

C["C12"] = dict(level="other",
 explanation="Projection of C12 that symbolic execution can reach: (i) DialWithOptions and ListenWithOptions, run on the same Options value from a menu covering registered names, unregistered names with constructors, constructors only and both, build codecs with the same body-codec and header-encoder types and a registered name wins over a constructor on both ends; (ii) the server harness's oracle (replies, errors, executions) does not depend on the mode vector (pipelining x directIO x context buffer x buffer size smaller/larger than the message), so passing it in every mode is mode independence; buffer sizes in the header glue: C07.",
 rule="one case = one feasible path",
 assumptions=COMMON_ASSUME,
 stubs=["stub socket/listener", "zzMsgs", "funcs model", "zzBytesCodec"],
 bounds={"options menu": "3 network forms x 5 codec forms x 5 header-encoder forms x 3 buffer sizes", "server modes": "16 mode vectors"},
 outside=["equivalence across tcp/unix/http/ws/inproc and TLS: real sockets, crypto/tls, net/http, websocket framing cannot be encoded", "json/xml/msgp body codecs (reflection)"],
 runs={"quick": [run("CLIb", labels=["reply-of-own-args", "reply-stable-after-later-traffic", "no-error"]), run("C12opt"), run("SRV", labels=SRV_ALL), run("SRVw", P=1, gran=3)], "thorough": [run("CLIb", params={"clib.K": 4}, labels=["reply-of-own-args", "reply-stable-after-later-traffic", "no-error"], budget=1500), run("C12opt"), run("SRV", params={"srv.N": 3, "srv.kinds": 3, "srv.arglens": 1}, labels=SRV_ALL, budget=1500), run("SRVw", P=1, gran=3, budget=1500)]})

TR_C13 = ["open-conns-within-MaxConnsPerHost", "idle-conns-within-MaxIdleConnsPerHost"]
TR_C14 = ["sent-only-to-requested-address", "reply-ok", "failure-is-shutdown", "recovers-after-one-failure-per-pooled-conn", "down-fails-with-dial-or-shutdown"]
C["C13"] = dict(level="other",
 explanation="Bounded histories of operations on the real Transport (getConn/newPersistConn/checkPersistConnErr/run/CloseIdleConnections/Close, conns and connQueue) with real Conns over auto-answering stub sockets: calls to two addresses, server kill/restart, CloseIdleConnections, housekeeping ticks at any quiescent point with symbolic clock readings (so any relation to KeepAlive/IdleConnTimeout). After every operation the number of dialed-and-not-closed connections per address is within the normalised MaxConnsPerHost and the idle queue within the normalised MaxIdleConnsPerHost.",
 rule="one case = one feasible path (operation sequence x limits x tick positions x clock branches)",
 assumptions=COMMON_ASSUME + ["time.Now returns arbitrary non-decreasing values", "ticks fire only when no other goroutine can run (between operations)"],
 stubs=["zzMsgs (auto-answering server)", "Dial stub", "clock"],
 bounds={"operations": "quick 3, thorough 4", "limits (MaxConns,MaxIdle)": "(1,1),(2,1),(2,2) + (0,0),(1,3) in thorough", "addresses": "2", "ticks": "1 (thorough 2)"},
 outside=["concurrent callers (sequential histories only)", "longer histories"],
 runs={"quick": [run("TR", labels=TR_C13), run("TRlim", params={"trlim.limits": 3}, labels=TR_C13), run("TRcc", labels=TR_C13)], "thorough": [run("TR", params={"tr.S": 3, "tr.limits": 5, "tr.ticks": 2}, labels=TR_C13, budget=2400), run("TRlim", params={"trlim.limits": 8}, labels=TR_C13, budget=1500), run("TRcc", labels=TR_C13), run("TRcc", P=1, gran=1, labels=TR_C13, budget=1500)]})

C["C14"] = dict(level="other",
 explanation="Same Transport histories as C13 asserting routing (a call to A writes only on connections dialed to A) and failure kinds, plus the directed recovery harness TRrec: one pooled connection, server killed and restarted, then a sequential caller with ticks allowed between calls and symbolic clock readings: at most one failure per pooled connection, then success, and it stays recovered.",
 rule="one case = one feasible path",
 assumptions=COMMON_ASSUME + ["time.Now arbitrary non-decreasing", "IdleConnTimeout > KeepAlive so that a retired connection can stay in the idle queue"],
 stubs=["zzMsgs (auto-answering server)", "Dial stub", "clock"],
 bounds={"operations": "3 (thorough 4)", "recovery calls": "3 (thorough 4)", "ticks": "2"},
 outside=["Transport.Go/RoundTrip on a connection that dies after the call was issued (asynchronous outcome bookkeeping)", "concurrent callers"],
 runs={"quick": [run("TR", labels=TR_C14), run("TRrec"), run("TRaddr"), run("TRvia"), run("TRdown")], "thorough": [run("TR", params={"tr.S": 4, "tr.ticks": 2}, labels=TR_C14, budget=2400), run("TRrec", params={"tr.R": 4, "tr.ticks": 3}, budget=900), run("TRaddr", params={"tr.ticks": 3}), run("TRvia", params={"tr.ticks": 2}), run("TRdown", params={"tr.ticks": 2})]})

C["C15"] = dict(level="other",
 explanation="A holder goroutine makes a long call through the real Transport (the stub server answers only at the end) while housekeeping ticks (symbolic clock: the connection may look arbitrarily old) and CloseIdleConnections run; the connection carrying the unanswered request must not be closed and the call must succeed; Transport.Close closes every connection. quick: macro-step interleavings; thorough: additionally Lock-granularity with 2 preemptions (the check-then-close window).",
 rule="one case = one feasible path",
 assumptions=COMMON_ASSUME + ["time.Now arbitrary non-decreasing"],
 stubs=["zzMsgs", "Dial stub", "clock"],
 bounds={"housekeeping operations during the call": "2", "ticks": "2", "thorough": "gran 1: P=2 with CloseIdleConnections only (limits (1,1), no warm-up); P=1 with one operation and one tick"},
 outside=["more than 2 preemptions"],
 runs={"quick": [run("C15"), run("C15s"), run("TRlim", params={"trlim.limits": 2}, labels=["close-closes-every-connection"])], "thorough": [run("C15"), run("C15s", params={"c15.ticks": 2}), run("TRlim", labels=["close-closes-every-connection"], budget=1500), run("C15", P=2, gran=1, params={"c15.ops": 1, "c15.ticks": 0, "c15.nlimits": 1, "c15.nwarm": 1, "c15.closeonly": 1}, budget=900), run("C15", P=1, gran=1, params={"c15.ops": 1, "c15.ticks": 1, "c15.nlimits": 1}, budget=1500)]})

CLT_C16 = ["panic", "one-roundtrip-per-call", "director-result-wins", "routed-to-current-target", "unrouted-call-fails-with-timeout"]
C["C16"] = dict(level="other",
 explanation="Bounded histories on the real Client (Update/director/schedule/check/checkPending/detect/run) over a stub RoundTripper with scripted target health: Update with target lists containing duplicates and empty strings, health changes, calls under each policy, Director hook, idle periods in which detector ticks and DialTimeout timers fire; every address handed to the RoundTripper is in the most recent target set or is the Director's non-empty result.",
 rule="one case = one feasible path",
 assumptions=COMMON_ASSUME + ["clock concrete in this harness (latency estimates only order LeastTime picks; symbolic-clock policy behaviour is C17)"],
 stubs=["zzRT (RoundTripper)", "clock", "timers fire at quiescent points"],
 bounds={"operations": "quick 2, thorough 3", "target menu": "6 lists over {a,b,c} incl. duplicates/empty", "ticks": "2"},
 outside=["concurrent Update and Call (sequential histories)", "longer histories"],
 runs={"quick": [run("CLT", params={"clt.S": 2, "clt.forms": 5}, labels=CLT_C16), run("CLT", params={"clt.S": 2, "clt.slowping": 1, "clt.ticks": 1}, labels=CLT_C16, budget=300), run("C18u", labels=["routed-to-current-target", "live-list-rebuilt-after-update"]), run("C16p", labels=CLT_C16, budget=300), run("C16h", params={"c16h.allpolicies": 1}, labels=CLT_C16)], "thorough": [run("C16p", params={"c16p.policies": 3}, labels=CLT_C16, budget=900), run("C16h", params={"c16h.allpolicies": 1, "c16h.firsts": 2, "clt.ticks": 2}, labels=CLT_C16, budget=1500), run("CLT", params={"clt.S": 3}, labels=CLT_C16, budget=1500), run("CLT", params={"clt.S": 3, "clt.slowping": 1, "clt.ticks": 1}, labels=CLT_C16, budget=2400), run("C18u", labels=["routed-to-current-target", "live-list-rebuilt-after-update"])]})

C["C17"] = dict(level="other",
 explanation="Data-level symbolic execution of schedule/minHeap/heapDown/list/target.Update: round-robin from any cursor gives n distinct targets in n picks; Random picks list[i] for an arbitrary i in range; after minHeap the root is minimal and the heap is a permutation (arbitrary 64-bit latencies); LeastTime probes iff lastTime+Tick < now (symbolic clock and Tick), at most one probe per Tick, otherwise picks a minimal-latency target; target.Update follows the documented branch structure and its EWMA term equals the reference formula under IEEE-754 (differential query).",
 rule="one case = one feasible path; non-trivial = needed a solver query",
 assumptions=["z3 answers trusted", "FloatingPoint theory for the EWMA term"],
 stubs=["clock", "math/rand.Intn = arbitrary value in range"],
 bounds={"targets n": "2..4 (thorough 2..6)", "latencies": "arbitrary int64", "alpha": "0.8, 0.5, 0, 1, 0.25"},
 outside=["n > 6", "statistical properties of Random", "the statement 'estimate lies between old and new' (solver cannot decide it: differential form used)"],
 runs={"quick": [run("C17p"), run("C17rr"), run("C17rand"), run("C17heap"), run("C17lt"), run("C17ewma"), run("C17d")],
       "thorough": [run("C17p", params={"c17p.K": 5}), run("C17rr", params={"c17.maxn": 6}), run("C17rand", params={"c17.maxn": 6}), run("C17heap", params={"c17.maxn": 6}, budget=900), run("C17lt", params={"c17.maxn": 5}, budget=900), run("C17ewma"), run("C17d", params={"clt.ticks": 4})]})

C["C18"] = dict(level="other",
 explanation="Callers enter the real Client while no target is live (director/wait/checkClosed); then the target becomes healthy, the Client is closed, Fallback is requested, or nothing happens; detector ticks, DialTimeout and Fallback timers fire at every quiescent point in every order. Terminal states: no caller is stranded; error kinds per release cause (nil or ErrTimeout when woken, ErrShutdown or ErrTimeout when closed, ErrTimeout when nothing is live); after Close calls fail at once. Plus the CLT histories (Close, call after close).",
 rule="one case = one feasible path",
 assumptions=COMMON_ASSUME + ["durations are not modelled: a timer may fire at any quiescent point after it is armed"],
 stubs=["zzRT", "timers"],
 bounds={"concurrent callers": "quick 1, thorough 2", "ticks": "2"},
 outside=["wall-clock 'within a bounded detection time'", "more waiters"],
 runs={"quick": [run("C18r"), run("C18w", params={"c18.N": 1}), run("C18f"), run("C18fb"), run("C18u"), run("C18c"), run("C18c", P=1, gran=1), run("CLT", params={"clt.S": 2}, labels=["call-after-close-is-shutdown", "second-close-nil", "all-goroutines-exit-after-close", "unrouted-call-fails-with-timeout"])],
       "thorough": [run("C18r"), run("C18w", params={"c18.N": 2}, budget=1500), run("C18f", params={"c18.ticks": 4}), run("C18fb"), run("C18fb", P=1, gran=1), run("C18u"), run("C18c", P=2, gran=1, params={"c18.N": 2}, budget=900), run("C18w", P=1, gran=1, params={"c18.N": 1, "c18.ticks": 1}, budget=1500), run("CLT", params={"clt.S": 3}, labels=["call-after-close-is-shutdown", "second-close-nil", "all-goroutines-exit-after-close", "unrouted-call-fails-with-timeout"], budget=1500)]})

C["C19"] = dict(level="other",
 explanation="One CallWithContext (harness-side context.Context with a buffer of symbolic stale contents and capacity smaller/equal/larger than the reply) and a sibling call on a real Conn; a correct server answers, the context is cancelled, or the call is never answered, in five scripts and every interleaving; a later call follows. CallWithContext returns (never stuck), with the context error when never answered, the reply when never cancelled, one of the two otherwise; the sibling and the later call get their own replies (a late response cannot land on a recycled call: LIFO pool reuse); buffer rules as in C11.",
 rule="one case = one feasible path",
 assumptions=COMMON_ASSUME,
 stubs=["zzMsgs", "zzBytesCodec", "harness context.Context"],
 bounds={"reply length": "2 or 4 bytes", "buffer capacity": "none, 1, len-1, len, len+2", "schedules": SCHED},
 outside=["several abandoned calls", "Client wrapper"],
 runs={"quick": [run("C19"), run("TRctx"), run("CLIb", labels=["context-buffer-untouched-by-later-calls", "reply-of-own-args", "no-error"])], "thorough": [run("C19"), run("TRctx"), run("TRctx", P=1, gran=1), run("C19", P=1, gran=1, budget=1500)]})

C["C20"] = dict(level="other",
 explanation="Terminal-state assertions after Close: Conn (C03 harness: every goroutine of the connection exits after the cut, the socket is closed, repeated Close reports ErrShutdown), Transport (TR harness: Close closes every pooled connection, the ticker goroutine exits), Client (CLT harness: detector goroutine exits, Transport closed, second Close nil), non-poll Server through the real Server.listen with a stub listener (two accepted connections, Close and peer disconnects in either order: Listen returns, accepted connections are closed, every goroutine exits, repeated Close returns nil).",
 rule="one case = one feasible path",
 assumptions=COMMON_ASSUME + ["hslam/scheduler is interpreted as is (its idle workers exit because IdleTime is 0)"],
 stubs=["zzMsgs", "stub listener/socket", "zzRT"],
 bounds={"histories": "as in the C03, TR, CLT harnesses; server: 2 connections, 1 request"},
 outside=["OS sockets", "poll servers (excluded by the property)"],
 runs={"quick": [run("STRe", P=1, gran=1), run("C08seq", labels=["teardown-completes-after-any-frame-sequence"]), run("C03", labels=["every-goroutine-exits", "socket-closed", "second-close-reports-ErrShutdown", "repeated-close-reports-ErrShutdown"]), run("C20srv"), run("C20cl"), run("C02", labels=["socket-closed", "no-goroutine-stuck"]), run("TR", params={"tr.S": 2}, labels=["close-closes-every-connection", "all-goroutines-exit-after-close"]), run("CLT", params={"clt.S": 2}, labels=["all-goroutines-exit-after-close", "transport-closed", "second-close-nil"])],
       "thorough": [run("STRe", P=2, gran=1, budget=1500), run("C03", params={"c03.K": 3, "c03.pings": 0}, labels=["every-goroutine-exits", "socket-closed", "second-close-reports-ErrShutdown", "repeated-close-reports-ErrShutdown"], budget=1800), run("C20srv"), run("C20cl"), run("C20cl", P=1, gran=1), run("TR", labels=["close-closes-every-connection", "all-goroutines-exit-after-close"]), run("CLT", params={"clt.S": 3}, labels=["all-goroutines-exit-after-close", "transport-closed", "second-close-nil"], budget=1500)]})

json.dump(C, open('/verif/checks.json', 'w'), indent=1)
print("wrote checks for", sorted(C))
