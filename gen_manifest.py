#!/usr/bin/env python3
# Regenerates MANIFEST.json from checks.json, manifest_meta.json and properties.jsonl.
import json
checks = json.load(open('/verif/checks.json'))
meta = json.load(open('/verif/manifest_meta.json'))
props = [json.loads(l) for l in open('/verif/properties.jsonl')]
out = {
 "version": 1,
 "setup_cmd": "cd /verif && GOFLAGS=-mod=mod GOPROXY=off GOSUMDB=off GOTOOLCHAIN=local go build -o bin/ssasym ./cmd/ssasym",
 "hooks": {"guard": "verif", "enable": "no source hooks: harnesses and replay drivers are injected into package rpc through go/packages and `go test -overlay` overlays generated from the current tree; nothing is written to /repo", "baseline_off_cmd": "cd /repo && go test -vet=off -count=1 -timeout 25m ./...", "source_commits": meta.get("source_commits", []), "add_only": True},
 "engines": [{"name": "ssasym", "path": "/verif/engine", "serves_properties": sorted(checks.keys()), "kind_free_text": "symbolic interpreter of go/ssa (built from /repo's working tree on every run) with a forking path explorer, a goroutine scheduler with preemption bounding and z3 4.8.12 as decision procedure; counterexamples are replayed natively with go test -overlay"}],
 "checks": [], "not_applicable": [],
 "notes": meta.get("notes", "")
}
for p in props:
    pid = p['id']
    if pid in checks:
        c = checks[pid]; m = meta['checks'].get(pid, {})
        out['checks'].append({
          "property_id": pid,
          "quick_cmd": "./check %s quick" % pid,
          "thorough_cmd": "./check %s thorough" % pid,
          "evidence_file": "/verif/evidence/%s.json" % pid,
          "replay_cmd_template": "./check replay {path}",
          "engine": "ssasym",
          "level_claimed": {"category": c['level'], "text": m.get('level_text', c['explanation']), "design_ref": m.get('design_ref', 'DESIGN.md §4 ' + pid)},
          "level_note": m.get('level_note', '; '.join(c.get('assumptions', []))),
          "technique": m.get('technique', "bounded symbolic execution of the real code from go/ssa, obligations decided by z3 (SMT, bit-vectors); counterexamples replayed natively")
        })
    else:
        out['not_applicable'].append({"property_id": pid, "reason": meta['not_applicable'].get(pid, "engine support not reached yet: the solver-based check for this property has not been built/registered clean")})
json.dump(out, open('/verif/MANIFEST.json', 'w'), indent=1)
print("checks:", [c['property_id'] for c in out['checks']], "n/a:", len(out['not_applicable']))
