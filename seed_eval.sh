#!/bin/sh
# dev aid: seed_eval.sh <Cxx> <n> [props...]
#  1. confirms a sub-agent's seeded change in a scratch worktree of /repo (builds, existing tests pass,
#     demo fails with / passes without the change)
#  2. stores it under /verif/seeded/<Cxx>-<n>/
#  3. runs the checks of the given properties (default: the target) against the scratch worktree with the
#     change applied (VERIF_REPO), evidence/replays redirected to a scratch directory; /repo is not touched.
export GOFLAGS=-mod=mod GOPROXY=off GOSUMDB=off GOTOOLCHAIN=local
id=$1; n=$2; shift 2
props=${*:-$id}
src=${SEEDSRC:-/tmp/wt/out}/$id/$n
dst=/verif/seeded/${SEEDTAG}$id-$n
[ -f $src/patch.diff ] || { echo "no patch at $src"; exit 2; }
wt=/tmp/wt/verify_${id}_$n
git -C /repo worktree remove --force $wt 2>/dev/null
git -C /repo worktree add -q --detach $wt HEAD || exit 2
res=""
if [ -z "$SKIPCONFIRM" ]; then
( cd $wt && git apply -3 $src/patch.diff ) || { echo "patch does not apply"; git -C /repo worktree remove --force $wt; exit 2; }
( cd $wt && go build ./... ) && res="$res build=ok" || res="$res build=FAIL"
( cd $wt && unshare -n sh -c 'ip link set lo up; go test -vet=off -count=1 -timeout 25m . ' >/tmp/seed_suite_$id$n.log 2>&1 ) && res="$res suite_with_patch=pass" || res="$res suite_with_patch=FAIL"
demo=$(ls $src/*_test.go 2>/dev/null | head -1)
if [ -n "$demo" ]; then
  cp $src/*_test.go $wt/
  ( cd $wt && unshare -n sh -c 'ip link set lo up; go test -vet=off -count=3 -timeout 10m -run "Seeded|ZZ|Zz|zz" . ' >/tmp/seed_demo_with_$id$n.log 2>&1 ) && res="$res demo_with_patch=pass(!)" || res="$res demo_with_patch=fail"
  ( cd $wt && git apply -R $src/patch.diff && unshare -n sh -c 'ip link set lo up; go test -vet=off -count=3 -timeout 10m -run "Seeded|ZZ|Zz|zz" . ' >/tmp/seed_demo_without_$id$n.log 2>&1 ) && res="$res demo_without_patch=pass" || res="$res demo_without_patch=FAIL(!)"
  rm -f $wt/*seeded*_test.go $wt/zz_*_test.go
else
  res="$res demo=program(see NOTES)"
fi
( cd $wt && git checkout -q -- . )
mkdir -p $dst && cp $src/patch.diff $dst/ && cp $src/*_test.go $dst/ 2>/dev/null; cp -r $src/demo $dst/ 2>/dev/null; cp $src/NOTES.md $dst/ 2>/dev/null
echo "CONFIRM $id-$n:$res"
echo "$res" > $dst/confirm.txt
fi
( cd $wt && git apply -3 $src/patch.diff ) || { echo "cannot apply"; exit 2; }
out=""
scratch=$(mktemp -d)
for p in $props; do
  VERIF_REPO=$wt VERIF_OUT=$scratch SSASYM_NONATIVE=${NONATIVE:-1} /verif/check $p ${TIER:-quick} > /tmp/seed_check_${id}${n}_$p.log 2>&1; rc=$?
  out="$out $p:exit=$rc"
  grep -E "^VIOLATION|^  harness=|^CHECK-INCOMPLETE" /tmp/seed_check_${id}${n}_$p.log | cut -c1-260 | head -6
done
rm -rf $scratch
git -C /repo worktree remove --force $wt
echo "CHECKS $id-$n:$out"
echo "$out" > $dst/last_checks.txt
