package main

import (
	"flag"
	"fmt"
	"os"
	"path/filepath"
	"strings"
	"time"

	"verif/engine"
)

func main() {
	if len(os.Args) < 2 {
		fmt.Println("usage: ssasym run|check|list ...")
		os.Exit(2)
	}
	switch os.Args[1] {
	case "run":
		runCmd(os.Args[2:])
	case "list":
		in, err := engine.Load(repoDir, filepath.Join(verifDir, "harness"))
		if err != nil {
			fmt.Println(err)
			os.Exit(2)
		}
		for _, h := range in.Harnesses() {
			fmt.Println(h)
		}
	case "check":
		os.Exit(checkCmd(os.Args[2:]))
	case "replay":
		os.Exit(replayCmd(os.Args[2:]))
	default:
		fmt.Println("unknown command")
		os.Exit(2)
	}
}

func runCmd(args []string) {
	fs := flag.NewFlagSet("run", flag.ExitOnError)
	h := fs.String("h", "", "harness")
	p := fs.Int("P", 0, "preemption bound")
	gr := fs.Int("gran", 0, "granularity")
	nw := fs.Int("j", 16, "workers")
	reuse := fs.Bool("reuse", true, "pool reuse")
	mo := fs.Bool("maporder", false, "fork map order")
	tb := fs.Int("timers", 2, "ticker budget")
	to := fs.Int("timeout", 300, "seconds")
	mv := fs.Int("maxviol", 50, "max violations")
	verbose := fs.Bool("v", false, "verbose")
	nosleep := fs.Bool("nosleep", false, "disable sleep sets")
	params := fs.String("params", "", "k=v,k=v harness parameters")
	fs.Parse(args)
	t0 := time.Now()
	in, err := engine.Load(repoDir, filepath.Join(verifDir, "harness"))
	if err != nil {
		fmt.Println(err)
		os.Exit(2)
	}
	fmt.Printf("loaded in %v\n", time.Since(t0))
	cfg := &engine.Config{Harness: *h, MaxPreempt: *p, Gran: *gr, PoolReuse: *reuse, MapOrder: *mo, TimerBudget: *tb, Params: map[string]int{}, NoSleepSets: *nosleep}
	for _, kv := range strings.Split(*params, ",") {
		if i := strings.IndexByte(kv, '='); i > 0 {
			n := 0
			fmt.Sscan(kv[i+1:], &n)
			cfg.Params[kv[:i]] = n
		}
	}
	res, err := engine.Explore(in, cfg, *nw, "/usr/bin/z3", 20000, time.Now().Add(time.Duration(*to)*time.Second), *mv)
	if err != nil {
		fmt.Println(err)
		os.Exit(2)
	}
	printResult(res, *verbose)
}

func printResult(res *engine.RunResult, verbose bool) {
	s := res.Stats
	fmt.Printf("harness %s: paths=%d ok=%d pruned=%d aborted=%d crashed=%d forks=%d sched=%d obligations=%d/%d (trivial %d) solverQ=%d solverT=%v steps=%d depth=%d sleeppruned=%d wall=%v complete=%v\n",
		res.Harness, s.Paths, s.PathsOK, s.PathsPruned, s.PathsAborted, s.PathsCrashed, s.Forks, s.SchedPoints, s.Discharged, s.Obligations, s.TrivialObl, s.SolverQ, s.SolverTime, s.Steps, s.MaxDepth, s.SleepPruned, res.Wall, res.Complete)
	fmt.Printf("reached=%v asserted=%v funcs=%d\n", res.Reached, res.Asserted, len(res.Funcs))
	for _, a := range res.Aborts {
		fmt.Println("ABORT:", a)
	}
	seen := map[string]int{}
	for _, v := range res.Violations {
		k := v.Sig
		seen[k]++
		if seen[k] == 1 {
			fmt.Printf("VIOL %s label=%s msg=%s site=%s sites=%v tags=%v inputs=%v\n", v.Kind, v.Label, v.Msg, v.Site, v.Sites, v.Tags, v.Inputs)
			if verbose {
				for _, t := range v.Trace {
					fmt.Println("    ", t)
				}
			}
		}
	}
	for k, n := range res.ViolCount {
		fmt.Printf("  x%d %s\n", n, k)
	}
	if verbose {
		for _, sm := range res.Samples {
			fmt.Printf("SAMPLE %s end=%s inputs=%v\n", sm.Decisions, sm.End, sm.Inputs)
			for _, t := range sm.Trace {
				fmt.Println("    ", t)
			}
		}
	}
}
