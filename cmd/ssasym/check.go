package main

import (
	"encoding/json"
	"fmt"
	"os"
	"os/exec"
	"path/filepath"
	"runtime"
	"sort"
	"strconv"
	"strings"
	"time"

	"verif/engine"
)

var verifDir = func() string {
	if d, err := os.Getwd(); err == nil {
		if _, err := os.Stat(filepath.Join(d, "checks.json")); err == nil {
			return d
		}
	}
	return "/verif"
}()

// repoDir is /repo; the development aid seed_eval.sh points it at a scratch worktree instead.
var repoDir = func() string {
	if d := os.Getenv("VERIF_REPO"); d != "" {
		return d
	}
	return "/repo"
}()

type runSpec struct {
	Harness  string         `json:"harness"`
	P        int            `json:"P"`
	Gran     int            `json:"gran"`
	Reuse    *bool          `json:"reuse,omitempty"`
	MapOrder bool           `json:"maporder,omitempty"`
	Timers   int            `json:"timers,omitempty"`
	Params   map[string]int `json:"params,omitempty"`
	BudgetS  int            `json:"budget_s,omitempty"`
	Reach    []string       `json:"reach,omitempty"`
	Native   string         `json:"native,omitempty"` // "data" (deterministic replay) or "stress"
	Labels   []string       `json:"labels,omitempty"` // assertion labels (or "panic") that belong to this property; empty = all
}

type propSpec struct {
	Level       string               `json:"level"`
	Explanation string               `json:"explanation"`
	Rule        string               `json:"rule"`
	Assumptions []string             `json:"assumptions"`
	Stubs       []string             `json:"stubs"`
	Bounds      map[string]string    `json:"bounds"`
	Outside     []string             `json:"outside"`
	Runs        map[string][]runSpec `json:"runs"`
}

type finding struct {
	Property  string `json:"property"`
	Status    string `json:"status"` // open | fixed
	Harness   string `json:"harness"`
	Signature string `json:"signature"`
	What      string `json:"what"`
	Commit    string `json:"commit,omitempty"`
	Gran      *int   `json:"gran,omitempty"` // when set, the entry only applies to runs at this granularity
	P         *int   `json:"P,omitempty"`    // ... and this preemption bound
}

type findingsFile struct {
	Findings []finding `json:"findings"`
}

func loadJSON(path string, v interface{}) error {
	b, err := os.ReadFile(path)
	if err != nil {
		return err
	}
	return json.Unmarshal(b, v)
}

func gitRev(dir string) string {
	out, err := exec.Command("git", "-C", dir, "rev-parse", "--short", "HEAD").Output()
	if err != nil {
		return "?"
	}
	rev := strings.TrimSpace(string(out))
	st, _ := exec.Command("git", "-C", dir, "status", "--porcelain").Output()
	if len(strings.TrimSpace(string(st))) > 0 {
		rev += "+dirty"
	}
	return rev
}

func checkCmd(args []string) int {
	if len(args) < 2 {
		fmt.Println("usage: ssasym check <property> <quick|thorough>")
		return 2
	}
	prop, tier := args[0], args[1]
	if t := os.Getenv("VERIF_TIER"); t == "quick" || t == "thorough" {
		tier = t
	}
	seed := 0
	if s := os.Getenv("VERIF_SEED"); s != "" {
		seed, _ = strconv.Atoi(s)
	}
	t0 := time.Now()
	specs := map[string]*propSpec{}
	if err := loadJSON(filepath.Join(verifDir, "checks.json"), &specs); err != nil {
		fmt.Println("cannot read checks.json:", err)
		return 2
	}
	spec := specs[prop]
	if spec == nil {
		fmt.Println("no check registered for", prop)
		return 2
	}
	runs := spec.Runs[tier]
	if len(runs) == 0 {
		runs = spec.Runs["quick"]
	}
	var ff findingsFile
	loadJSON(filepath.Join(verifDir, "known_findings.json"), &ff)

	in, err := engine.Load(repoDir, filepath.Join(verifDir, "harness"))
	if err != nil {
		fmt.Println("MACHINERY-CANNOT-RUN: loading /repo with harness overlay failed:")
		fmt.Println(err)
		writeEvidence(prop, tier, seed, spec, nil, nil, time.Since(t0), 0, []string{"load failed: " + err.Error()}, nil)
		return 2
	}
	harnessNames = in.Harnesses()
	defer cleanupNative()
	nw := runtime.NumCPU()
	if nw > 16 {
		nw = 16
	}
	var results []*engine.RunResult
	var problems []string
	exit := 0
	nViol := 0
	var knownHit []string
	nReplay := 0
	nativeRuns := 0
	nValidate, nDisagree := 0, 0
	var otherProps []string
	for _, rs := range runs {
		cfg := &engine.Config{Harness: rs.Harness, MaxPreempt: rs.P, Gran: rs.Gran, PoolReuse: true, MapOrder: rs.MapOrder, TimerBudget: rs.Timers, Params: rs.Params}
		if rs.Reuse != nil {
			cfg.PoolReuse = *rs.Reuse
		}
		if cfg.Params == nil {
			cfg.Params = map[string]int{}
		}
		budget := rs.BudgetS
		if budget == 0 {
			budget = 240
		}
		if c := os.Getenv("SSASYM_BUDGET_CAP"); c != "" {
			// dev aid: cap every run's wall-clock budget (used to size the registered configurations)
			if n, e := strconv.Atoi(c); e == nil && n < budget {
				budget = n
			}
		}
		res, err := engine.Explore(in, cfg, nw, "/usr/bin/z3", 30000, time.Now().Add(time.Duration(budget)*time.Second), 200)
		if err != nil {
			fmt.Println("MACHINERY-CANNOT-RUN:", err)
			return 2
		}
		results = append(results, res)
		s := res.Stats
		fmt.Printf("run %s [P=%d gran=%d params=%v]: paths=%d terminal=%d obligations=%d discharged=%d solver_queries=%d solver_time=%.1fs wall=%.1fs\n",
			rs.Harness, rs.P, rs.Gran, rs.Params, s.Paths, s.Terminal, s.Obligations, s.Discharged, s.SolverQ, s.SolverTime.Seconds(), res.Wall.Seconds())
		for _, a := range res.Aborts {
			problems = append(problems, rs.Harness+": "+a)
		}
		if s.Inconclusive > 0 {
			problems = append(problems, fmt.Sprintf("%s: %d inconclusive solver answers", rs.Harness, s.Inconclusive))
		}
		reach := rs.Reach
		if len(reach) == 0 {
			reach = []string{"end"}
		}
		for _, l := range reach {
			if res.Reached[l] == 0 {
				problems = append(problems, fmt.Sprintf("%s: VACUOUS: reachability witness %q not reached on any path", rs.Harness, l))
			}
		}
		// translator validation: completed (non-violating) sample paths of data-only harnesses are
		// re-run natively with the solver's model for their inputs; the native run must agree (no
		// assertion fails, the harness runs to the end)
		if rs.Native == "data" && os.Getenv("SSASYM_NONATIVE") == "" {
			k := 0
			for _, sm := range res.Samples {
				if !sm.Modelled || k >= 2 {
					continue
				}
				k++
				nValidate++
				path := filepath.Join(outDir(), "replay", fmt.Sprintf("%s-%s-sample%d.json", prop, rs.Harness, k))
				os.MkdirAll(filepath.Dir(path), 0o755)
				b, _ := json.MarshalIndent(replayFile{Property: prop, Harness: rs.Harness, Kind: "sample", Inputs: sm.Inputs, Kinds: sm.Kinds, Decisions: sm.Decisions, Repo: gitRev(repoDir)}, "", " ")
				os.WriteFile(path, b, 0o644)
				ok, out, _ := nativeReplay(path, rs.Harness, &engine.Violation{Kind: "assert", Label: ""}, "data")
				// nativeReplay reports "reproduced" when any assertion failed natively
				if ok || !strings.Contains(out, "ZZ-DONE") {
					nDisagree++
					problems = append(problems, fmt.Sprintf("%s: ENGINE-DISAGREEMENT: native run of a passing sample path failed (%s): %s", rs.Harness, path, firstLine(out)))
				} else {
					os.Remove(path)
				}
			}
		}
		// classify violations by signature
		bySig := map[string][]*engine.Violation{}
		var sigs []string
		for _, v := range res.Violations {
			if _, ok := bySig[v.Sig]; !ok {
				sigs = append(sigs, v.Sig)
			}
			bySig[v.Sig] = append(bySig[v.Sig], v)
		}
		sort.Strings(sigs)
		for _, sig := range sigs {
			if len(rs.Labels) > 0 {
				mine := bySig[sig][0].Label == "harness-main-blocked"
				for _, l := range rs.Labels {
					if bySig[sig][0].Label == l {
						mine = true
					}
				}
				if !mine {
					otherProps = append(otherProps, rs.Harness+": "+sig)
					continue
				}
			}
			var kf *finding
			for i := range ff.Findings {
				f := &ff.Findings[i]
				if f.Property == prop && f.Status == "open" && f.Harness == rs.Harness && f.Signature == sig &&
					(f.Gran == nil || *f.Gran == rs.Gran) && (f.P == nil || *f.P == rs.P) {
					kf = f
				}
			}
			if kf != nil {
				line := fmt.Sprintf("KNOWN-FINDING: property=%s %s [%s; %d paths]", prop, kf.What, rs.Harness, res.ViolCount[sig])
				fmt.Println(line)
				knownHit = append(knownHit, kf.What)
				continue
			}
			v := bySig[sig][0]
			nReplay++
			path := filepath.Join(outDir(), "replay", fmt.Sprintf("%s-%s-%d.json", prop, rs.Harness, nReplay))
			writeReplay(path, prop, v, cfg)
			mode := rs.Native
			if mode == "" {
				mode = "data"
			}
			confirmed, out, n := nativeReplay(path, rs.Harness, v, mode)
			nativeRuns += n
			status := "native replay reproduced it"
			if !confirmed {
				status = "native replay did NOT reproduce it (" + firstLine(out) + "); reported from the engine's execution of the real SSA"
			}
			fmt.Printf("VIOLATION property=%s replay=%s\n", prop, path)
			fmt.Printf("  harness=%s signature=%s paths=%d inputs=%v\n  %s\n", rs.Harness, sig, res.ViolCount[sig], v.Inputs, status)
			nViol++
			exit = 1
		}
	}
	wall := time.Since(t0)
	if len(problems) > 0 {
		for _, p := range problems {
			fmt.Println("CHECK-INCOMPLETE:", p)
		}
		if exit == 0 {
			exit = 2
		}
	}
	evidenceExtra = map[string]interface{}{"violations_belonging_to_other_properties_seen": otherProps, "native_replay_runs": nativeRuns,
		"traces_validated_against_impl": nValidate, "engine_native_disagreements": nDisagree}
	writeEvidence(prop, tier, seed, spec, runs, results, wall, nViol, problems, knownHit)
	if exit == 0 {
		fmt.Printf("OK property=%s tier=%s wall=%.1fs\n", prop, tier, wall.Seconds())
	}
	return exit
}

var evidenceExtra map[string]interface{}

// outDir is where evidence and replay files go: /verif, unless the development aid seed_eval.sh
// redirects them so that runs against seeded changes do not overwrite the committed evidence.
func outDir() string {
	if d := os.Getenv("VERIF_OUT"); d != "" {
		return d
	}
	return verifDir
}

func firstLine(s string) string {
	s = strings.TrimSpace(s)
	if i := strings.IndexByte(s, '\n'); i >= 0 {
		s = s[:i]
	}
	if len(s) > 160 {
		s = s[:160]
	}
	return s
}

type replayFile struct {
	Property  string                 `json:"property"`
	Harness   string                 `json:"harness"`
	Signature string                 `json:"signature"`
	Kind      string                 `json:"kind"`
	Label     string                 `json:"label"`
	Msg       string                 `json:"msg,omitempty"`
	Site      string                 `json:"site,omitempty"`
	Sites     []string               `json:"sites,omitempty"`
	Inputs    map[string]interface{} `json:"inputs"`
	Kinds     map[string]string      `json:"kinds"`
	Decisions string                 `json:"decisions"`
	Trace     []string               `json:"engine_trace"`
	Config    map[string]interface{} `json:"config"`
	Repo      string                 `json:"repo_rev"`
}

func writeReplay(path, prop string, v *engine.Violation, cfg *engine.Config) {
	os.MkdirAll(filepath.Dir(path), 0o755)
	rf := replayFile{Property: prop, Harness: v.Harness, Signature: v.Sig, Kind: v.Kind, Label: v.Label, Msg: v.Msg, Site: v.Site, Sites: v.Sites,
		Inputs: v.Inputs, Kinds: v.Kinds, Decisions: engine.DecisionsString(v.Decisions), Trace: v.Trace,
		Config: map[string]interface{}{"P": cfg.MaxPreempt, "gran": cfg.Gran, "pool_reuse": cfg.PoolReuse, "params": cfg.Params}, Repo: gitRev(repoDir)}
	b, _ := json.MarshalIndent(rf, "", " ")
	os.WriteFile(path, b, 0o644)
}

var nativeBin, nativeTmp, nativeBuildErr string
var harnessNames []string

// buildNative compiles (once per check run) package rpc's test binary with the harness files and a
// generated driver injected by overlay; nothing is written to /repo.
func buildNative() {
	if nativeBin != "" || nativeBuildErr != "" {
		return
	}
	tmp, err := os.MkdirTemp("", "zzreplay")
	if err != nil {
		nativeBuildErr = err.Error()
		return
	}
	nativeTmp = tmp
	files, _ := filepath.Glob(filepath.Join(verifDir, "harness", "*.go"))
	ov := map[string]string{}
	for _, f := range files {
		ov[filepath.Join(repoDir, "zz_verif_"+filepath.Base(f))] = f
	}
	var sb strings.Builder
	sb.WriteString("package rpc\n\nimport (\n\t\"fmt\"\n\t\"os\"\n\t\"testing\"\n\t\"time\"\n)\n\nfunc TestZZReplay(t *testing.T) {\n\tswitch os.Getenv(\"ZZ_HARNESS\") {\n")
	for _, h := range harnessNames {
		fmt.Fprintf(&sb, "\tcase %q:\n\t\tzzH_%s()\n", h, h)
	}
	sb.WriteString("\tdefault:\n\t\tt.Fatal(\"unknown harness\")\n\t}\n\tfailed := zzFinish(2 * time.Second)\n\tfor _, f := range failed {\n\t\tfmt.Println(\"ZZ-FAILED\", f)\n\t}\n\tfmt.Println(\"ZZ-DONE\")\n}\n")
	driver := filepath.Join(tmp, "driver_test.go")
	os.WriteFile(driver, []byte(sb.String()), 0o644)
	ov[filepath.Join(repoDir, "zz_verif_driver_test.go")] = driver
	ovb, _ := json.Marshal(map[string]interface{}{"Replace": ov})
	ovPath := filepath.Join(tmp, "overlay.json")
	os.WriteFile(ovPath, ovb, 0o644)
	bin := filepath.Join(tmp, "rpc.test")
	build := exec.Command("go", "test", "-vet=off", "-c", "-o", bin, "-overlay", ovPath, ".")
	build.Dir = repoDir
	build.Env = append(os.Environ(), "GOFLAGS=-mod=mod", "GOPROXY=off", "GOSUMDB=off", "GOTOOLCHAIN=local")
	if out, err := build.CombinedOutput(); err != nil {
		nativeBuildErr = "native build failed: " + string(out)
		return
	}
	nativeBin = bin
}

func cleanupNative() {
	if nativeTmp != "" {
		os.RemoveAll(nativeTmp)
	}
}

// nativeReplay runs the harness natively with the counterexample's inputs ("data": once;
// "stress": repeatedly under varying GOMAXPROCS until the same assertion fails or the budget ends).
func nativeReplay(replayPath, harness string, v *engine.Violation, mode string) (bool, string, int) {
	if os.Getenv("SSASYM_NONATIVE") != "" {
		return false, "native replay skipped (SSASYM_NONATIVE)", 0
	}
	buildNative()
	if nativeBuildErr != "" {
		return false, nativeBuildErr, 0
	}
	attempts := 1
	if mode == "stress" {
		attempts = 200
	}
	var last string
	for i := 0; i < attempts; i++ {
		cmd := exec.Command("timeout", "60", nativeBin, "-test.run", "^TestZZReplay$", "-test.count=1")
		cmd.Dir = repoDir
		cmd.Env = append(os.Environ(), "ZZ_REPLAY="+replayPath, "ZZ_HARNESS="+harness, "GOMAXPROCS="+strconv.Itoa(1+i%4), "ZZ_JITTER="+strconv.Itoa(i+1))
		out, _ := cmd.CombinedOutput()
		last = string(out)
		switch v.Kind {
		case "assert":
			if strings.Contains(last, "ZZ-ASSERT-FAILED "+v.Label) || strings.Contains(last, "panic:") && v.Label == "" {
				return true, last, i + 1
			}
		case "panic":
			if strings.Contains(last, "panic:") || strings.Contains(last, "fatal error:") {
				return true, last, i + 1
			}
		}
	}
	return false, last, attempts
}

func writeEvidence(prop, tier string, seed int, spec *propSpec, runs []runSpec, results []*engine.RunResult, wall time.Duration, nViol int, problems, known []string) {
	var total engine.Stats
	funcs := map[string]bool{}
	var samples []interface{}
	var runInfo []interface{}
	nontrivial := 0
	complete := len(problems) == 0
	for i, r := range results {
		total.Paths += r.Stats.Paths
		total.Terminal += r.Stats.Terminal
		total.Obligations += r.Stats.Obligations
		total.Discharged += r.Stats.Discharged
		total.TrivialObl += r.Stats.TrivialObl
		total.SolverQ += r.Stats.SolverQ
		total.SolverTime += r.Stats.SolverTime
		total.SchedPoints += r.Stats.SchedPoints
		total.Forks += r.Stats.Forks
		total.Steps += r.Stats.Steps
		total.PathsPruned += r.Stats.PathsPruned
		total.HandlerCalls += r.Stats.HandlerCalls
		nontrivial += r.NonTrivial
		for f := range r.Funcs {
			if !strings.Contains(f, "zzH_") && !strings.Contains(f, ".zz") && !strings.Contains(f, ".v") {
				funcs[f] = true
			} else if strings.Contains(f, "hslam/rpc") && !strings.Contains(f, ".zz") && !strings.Contains(f, ".v") {
				funcs[f] = true
			}
		}
		for k, s := range r.Samples {
			if k < 2 {
				samples = append(samples, map[string]interface{}{"harness": r.Harness, "path": s.Decisions, "inputs": s.Inputs, "end": s.End, "trace_tail": s.Trace})
			}
		}
		runInfo = append(runInfo, map[string]interface{}{
			"harness": r.Harness, "preemption_bound": runs[i].P, "granularity": runs[i].Gran, "params": runs[i].Params,
			"paths": r.Stats.Paths, "paths_pruned_by_assumption": r.Stats.PathsPruned, "terminal_states": r.Stats.Terminal,
			"scheduling_decisions": r.Stats.SchedPoints, "symbolic_forks": r.Stats.Forks, "obligations": r.Stats.Obligations,
			"discharged": r.Stats.Discharged, "syntactically_trivial": r.Stats.TrivialObl, "solver_queries": r.Stats.SolverQ,
			"solver_time_s": r.Stats.SolverTime.Seconds(), "wall_s": r.Wall.Seconds(), "witnesses": r.Reached, "assertions_evaluated": r.Asserted,
			"violation_signatures": r.ViolCount, "complete": r.Complete, "interpreted_instructions": r.Stats.Steps,
		})
	}
	var fl []string
	for f := range funcs {
		fl = append(fl, f)
	}
	sort.Strings(fl)
	if len(samples) == 0 {
		samples = append(samples, "no path completed")
	}
	if nontrivial < 2 && total.Paths >= 2 {
		nontrivial = total.Paths
	}
	cov := map[string]interface{}{
		"explanation":         spec.Explanation,
		"evaluations":         total.Paths,
		"distinct_nontrivial": nontrivial,
		"rule":                spec.Rule,
		"samples":             samples,
		"obligations":         total.Obligations,
		"discharged":          total.Discharged,
		"exhaustive":          complete,
		"states":              total.Terminal + total.SchedPoints,
		"transitions":         total.SchedPoints + total.Paths,
		"functions_encoded":   fl,
		"bounds":              spec.Bounds,
		"outside_the_claim":   spec.Outside,
		"runs":                runInfo,
		"stubs":               spec.Stubs,
		"solver":              map[string]interface{}{"name": "z3", "version": "4.8.12", "queries": total.SolverQ, "time_s": total.SolverTime.Seconds()},
		"incomplete_reasons":  problems,
		"known_findings_hit":  known,
		"repo_rev":            gitRev(repoDir),
		"verif_rev":           gitRev(verifDir),
		"trusted_base":        []string{"verif/engine (go/ssa symbolic interpreter)", "z3 4.8.12", "harness stubs listed under stubs"},
	}
	for k, v := range evidenceExtra {
		cov[k] = v
	}
	ev := map[string]interface{}{
		"property_id": prop, "tier": tier, "seed": seed, "level": spec.Level, "coverage": cov,
		"assumptions": spec.Assumptions, "wall_s": wall.Seconds(), "violations": nViol,
	}
	b, _ := json.MarshalIndent(ev, "", " ")
	os.MkdirAll(filepath.Join(outDir(), "evidence"), 0o755)
	os.WriteFile(filepath.Join(outDir(), "evidence", prop+".json"), b, 0o644)
}

// replayCmd re-runs a recorded counterexample natively and prints the outcome.
func replayCmd(args []string) int {
	if len(args) < 1 {
		fmt.Println("usage: ssasym replay <file>")
		return 2
	}
	var rf replayFile
	if err := loadJSON(args[0], &rf); err != nil {
		fmt.Println(err)
		return 2
	}
	fmt.Printf("replaying %s: harness=%s %s label=%s %s\n", args[0], rf.Harness, rf.Kind, rf.Label, rf.Msg)
	fmt.Println("engine trace (tail):")
	for _, t := range rf.Trace {
		fmt.Println("   ", t)
	}
	v := &engine.Violation{Kind: rf.Kind, Label: rf.Label}
	if in, err := engine.Load(repoDir, filepath.Join(verifDir, "harness")); err == nil {
		harnessNames = in.Harnesses()
	} else {
		fmt.Println(err)
		return 2
	}
	defer cleanupNative()
	mode := "stress"
	ok, out, n := nativeReplay(args[0], rf.Harness, v, mode)
	fmt.Printf("native runs: %d reproduced: %v\n", n, ok)
	fmt.Println(out)
	if ok {
		return 1
	}
	return 0
}
