package engine

import "fmt"

// Decision is one recorded non-deterministic choice on a path: a symbolic branch outcome, a
// scheduling pick, an environment choice or a concretised value.
type Decision struct {
	kind   string
	opts   []int64
	idx    int
	forced bool
	// sleep-set bookkeeping for scheduling decisions: identity of each option (goroutine id, or
	// -1-timerIndex), the footprint of the option's first step (union over the variants explored),
	// whether its subtree has been explored completely, and the allocation counter at the decision.
	ident []int
	fps   []*footprint
	done  []bool
	birth int
	taint bool // part of the current option's subtree was given to another worker
}

// footprint is the set of pre-existing heap objects (by allocation id) a step read (1) or wrote (2).
type footprint struct {
	acc map[int]uint8
	all bool
}

func (f *footprint) conflicts(o *footprint) bool {
	if f == nil || o == nil {
		return true
	}
	if f.all || o.all {
		return true
	}
	a, b := f.acc, o.acc
	if len(a) > len(b) {
		a, b = b, a
	}
	for id, m := range a {
		if n, ok := b[id]; ok && (m|n)&2 != 0 {
			return true
		}
	}
	return false
}

func (d Decision) String() string {
	if d.forced {
		return fmt.Sprintf("%s=%d!", d.kind, d.opts[d.idx])
	}
	return fmt.Sprintf("%s=%d/%d", d.kind, d.opts[d.idx], len(d.opts))
}

// Explorer drives depth-first exploration by re-execution: a path is the sequence of its
// decisions; the next path flips the deepest decision that still has an unexplored option.
type Explorer struct {
	dec    []Decision
	pos    int
	frozen int // decisions below this index belong to the job prefix and are never flipped
}

func (e *Explorer) replay(kind string) (*Decision, bool) {
	if e.pos < len(e.dec) {
		d := &e.dec[e.pos]
		if d.kind != kind {
			panic(abortPath{fmt.Sprintf("internal: non-deterministic replay: expected decision %q at %d, got %q", d.kind, e.pos, kind)})
		}
		e.pos++
		return d, true
	}
	return nil, false
}

func (e *Explorer) record(d Decision) {
	e.dec = append(e.dec, d)
	e.pos++
}

func (e *Explorer) choose(kind string, n int) int {
	if d, ok := e.replay(kind); ok {
		return int(d.opts[d.idx])
	}
	opts := make([]int64, n)
	for i := range opts {
		opts[i] = int64(i)
	}
	e.record(Decision{kind: kind, opts: opts})
	return 0
}

// next advances to the next unexplored path; false when the subtree is exhausted.
func (e *Explorer) next() bool {
	for i := len(e.dec) - 1; i >= e.frozen; i-- {
		d := &e.dec[i]
		if d.idx+1 < len(d.opts) {
			if d.done != nil && !d.taint {
				d.done[d.idx] = true
			}
			d.taint = false
			d.idx++
			e.dec = e.dec[:i+1]
			e.pos = 0
			return true
		}
	}
	return false
}

// split removes the shallowest open alternative(s) from this explorer and returns them as
// independent job prefixes (for work sharing). Returns nil if nothing can be given away.
func (e *Explorer) split() [][]Decision {
	for i := e.frozen; i < len(e.dec); i++ {
		d := &e.dec[i]
		if d.idx+1 < len(d.opts) {
			var jobs [][]Decision
			for k := d.idx + 1; k < len(d.opts); k++ {
				p := make([]Decision, i+1)
				copy(p, e.dec[:i+1])
				p[i].idx = k
				p[i].opts = d.opts
				// the receiving worker must not share mutable bookkeeping with the donor: it keeps
				// the footprints of completed siblings only
				for j := range p {
					if p[j].done != nil {
						p[j].done = append([]bool(nil), p[j].done...)
						p[j].fps = append([]*footprint(nil), p[j].fps...)
						for x := range p[j].fps {
							if !p[j].done[x] {
								p[j].fps[x] = nil
							}
						}
						p[j].taint = true
					}
				}
				jobs = append(jobs, p)
			}
			d.opts = d.opts[:d.idx+1]
			// the donor's open options above now have incomplete first-step footprints
			for j := 0; j <= i; j++ {
				if e.dec[j].done != nil {
					e.dec[j].taint = true
				}
			}
			return jobs
		}
	}
	return nil
}

func (e *Explorer) snapshot() []Decision {
	out := make([]Decision, e.pos)
	copy(out, e.dec[:e.pos])
	return out
}
