package engine

import (
	"fmt"
	"sort"
	"strings"
)

const harnessPkg = "github.com/hslam/rpc."

func (w *World) argStr(v Value) string {
	s, ok := w.concreteStr(v.(Str))
	if !ok {
		w.abort("harness intrinsic needs a constant string name")
	}
	return s
}

func (w *World) argInt(v Value) int {
	t := v.(*Term)
	if !t.IsConst() {
		w.abort("harness intrinsic needs a constant integer")
	}
	return int(sext(t.Val, t.W))
}

// freshInput creates a new symbolic input named name#k.
func (w *World) freshInput(name string, width int, kind string) *Term {
	w.symCount[name]++
	full := fmt.Sprintf("%s#%d", name, w.symCount[name])
	t := w.tt.Sym(full, width)
	w.inputs[full] = t
	w.inputKind[full] = kind
	return t
}

func (w *World) freshBytes(name string, n int) Slice {
	w.symCount[name]++
	full := fmt.Sprintf("%s#%d", name, w.symCount[name])
	if n == 0 {
		w.inputKind[full] = "bytes:0"
		return Slice{w.newByteArr(0, ""), 0, 0, 0}
	}
	a := w.newByteArr(n, full)
	for i := 0; i < n; i++ {
		w.inputs[fmt.Sprintf("%s[%d]", full, i)] = a.get(w, i)
	}
	w.inputKind[full] = fmt.Sprintf("bytes:%d", n)
	return Slice{a, 0, n, n}
}

// checkAssert discharges one assertion: pc ∧ ¬c must be unsatisfiable.
func (w *World) checkAssert(g *G, c *Term, label string, obj Value) {
	w.asserted[label]++
	w.stats.Obligations++
	if c.IsTrue() {
		w.stats.Discharged++
		w.stats.TrivialObl++
		return
	}
	var r Result
	var model map[string]uint64
	if c.IsFalse() {
		r = Sat // the path itself is feasible; a model is computed only if the violation is kept
	} else {
		r, model = w.sol.Check(w.pc, w.tt.Not(c), true)
	}
	switch r {
	case Unsat:
		w.stats.Discharged++
		return
	case Unknown:
		w.stats.Inconclusive++
		w.abort("INCONCLUSIVE solver answer on assertion %q (%s)", label, w.sol.LastError)
	}
	v := &Violation{Kind: "assert", Label: label, Model: model}
	if len(g.frames) > 0 {
		v.Site = w.siteOf(g.frames[len(g.frames)-1])
	}
	if obj != nil {
		var rc *Cell
		switch o := obj.(type) {
		case Iface:
			if p, ok := o.v.(Ptr); ok {
				rc = p.c
			}
		case Ptr:
			rc = o.c
		}
		seen := map[string]bool{}
		for _, e := range w.watchLog {
			if e.recv == rc && !seen[e.caller] {
				seen[e.caller] = true
				v.Sites = append(v.Sites, e.caller)
			}
		}
		sort.Strings(v.Sites)
	}
	w.tracef("g%d ASSERT FAILED %s", g.id, label)
	w.addViolation(v)
	// continue the path under the assumption that the assertion held, if that is possible
	if !w.feasible(c) {
		w.end = EndOK
		w.ended = true
		panic(endPath{})
	}
	w.assume(c)
}

func registerHarnessIntrinsics(m map[string]intrinsic) {
	h := func(name string, f intrinsic) { m[harnessPkg+name] = f }
	h("vU64", func(w *World, g *G, a []Value, fin func(Value)) { fin(w.freshInput(w.argStr(a[0]), 64, "u64")) })
	h("vInt", func(w *World, g *G, a []Value, fin func(Value)) { fin(w.freshInput(w.argStr(a[0]), 64, "int")) })
	h("vI64", func(w *World, g *G, a []Value, fin func(Value)) { fin(w.freshInput(w.argStr(a[0]), 64, "int")) })
	h("vByte", func(w *World, g *G, a []Value, fin func(Value)) { fin(w.freshInput(w.argStr(a[0]), 8, "byte")) })
	h("vBool", func(w *World, g *G, a []Value, fin func(Value)) { fin(w.freshInput(w.argStr(a[0]), 0, "bool")) })
	h("vF64", func(w *World, g *G, a []Value, fin func(Value)) { fin(w.freshInput(w.argStr(a[0]), -64, "f64")) })
	h("vChoose", func(w *World, g *G, a []Value, fin func(Value)) {
		name := w.argStr(a[0])
		n := w.argInt(a[1])
		if n <= 0 {
			w.abort("vChoose(%s, %d)", name, n)
		}
		k := 0
		if n > 1 {
			k = w.ex.choose("choose:"+name, n)
		}
		w.symCount[name]++
		w.inputs[fmt.Sprintf("%s#%d", name, w.symCount[name])] = w.intTerm(k)
		w.inputKind[fmt.Sprintf("%s#%d", name, w.symCount[name])] = "choose"
		fin(w.intTerm(k))
	})
	h("vBytes", func(w *World, g *G, a []Value, fin func(Value)) {
		name := w.argStr(a[0])
		max := w.argInt(a[1])
		n := 0
		if max > 0 {
			n = w.ex.choose("len:"+name, max+1)
		}
		fin(w.freshBytes(name, n))
	})
	h("vBytesN", func(w *World, g *G, a []Value, fin func(Value)) {
		fin(w.freshBytes(w.argStr(a[0]), w.argInt(a[1])))
	})
	h("vString", func(w *World, g *G, a []Value, fin func(Value)) {
		name := w.argStr(a[0])
		max := w.argInt(a[1])
		n := 0
		if max > 0 {
			n = w.ex.choose("len:"+name, max+1)
		}
		s := w.freshBytes(name, n)
		if n == 0 {
			fin(Str{})
			return
		}
		fin(Str{s.a, 0, n})
	})
	h("vStringN", func(w *World, g *G, a []Value, fin func(Value)) {
		n := w.argInt(a[1])
		s := w.freshBytes(w.argStr(a[0]), n)
		if n == 0 {
			fin(Str{})
			return
		}
		fin(Str{s.a, 0, n})
	})
	h("vBuffer", func(w *World, g *G, a []Value, fin func(Value)) {
		// a buffer of capacity c (chosen among 0..max) with symbolic stale contents and length 0
		name := w.argStr(a[0])
		max := w.argInt(a[1])
		c := 0
		if max > 0 {
			c = w.ex.choose("cap:"+name, max+1)
		}
		s := w.freshBytes(name, c)
		fin(Slice{s.a, 0, 0, c})
	})
	h("vBufferN", func(w *World, g *G, a []Value, fin func(Value)) {
		c := w.argInt(a[1])
		s := w.freshBytes(w.argStr(a[0]), c)
		fin(Slice{s.a, 0, 0, c})
	})
	h("vConcrete", func(w *World, g *G, a []Value, fin func(Value)) {
		fin(w.intTerm(int(w.concretize(a[0].(*Term), "vConcrete"))))
	})
	h("vAssume", func(w *World, g *G, a []Value, fin func(Value)) {
		c := a[0].(*Term)
		if !w.feasible(c) {
			w.end = EndAssumeFalse
			w.ended = true
			panic(endPath{})
		}
		w.assume(c)
		fin(nil)
	})
	h("vAssert", func(w *World, g *G, a []Value, fin func(Value)) {
		w.checkAssert(g, a[0].(*Term), w.argStr(a[1]), nil)
		fin(nil)
	})
	h("vAssertOn", func(w *World, g *G, a []Value, fin func(Value)) {
		w.checkAssert(g, a[0].(*Term), w.argStr(a[1]), a[2])
		fin(nil)
	})
	h("vReach", func(w *World, g *G, a []Value, fin func(Value)) {
		w.reached[w.argStr(a[0])] = true
		fin(nil)
	})
	h("vTag", func(w *World, g *G, a []Value, fin func(Value)) {
		w.tags = append(w.tags, w.argStr(a[0]))
		fin(nil)
	})
	h("vLog", func(w *World, g *G, a []Value, fin func(Value)) {
		w.tracef("g%d: %s", g.id, w.argStr(a[0]))
		fin(nil)
	})
	eqBytes := func(w *World, x, y Slice) *Term {
		if x.len != y.len {
			return w.tt.False
		}
		r := w.tt.True
		for i := 0; i < x.len; i++ {
			r = w.tt.And(r, w.tt.Eq(w.arrGet(x.a, x.off+i).(*Term), w.arrGet(y.a, y.off+i).(*Term)))
		}
		return r
	}
	h("vEqBytes", func(w *World, g *G, a []Value, fin func(Value)) {
		x, _ := a[0].(Slice)
		y, _ := a[1].(Slice)
		fin(eqBytes(w, x, y))
	})
	h("vEqString", func(w *World, g *G, a []Value, fin func(Value)) {
		fin(w.valueEq(a[0], a[1]))
	})
	h("vGo", func(w *World, g *G, a []Value, fin func(Value)) {
		name := w.argStr(a[0])
		c := a[1].(*Closure)
		op := &syncOp{desc: "vGo " + name, ready: func() bool { return true }}
		op.exec = func() {
			ng := w.newG(name)
			w.stats.Goroutines++
			w.callValue(ng, c, nil, func(Value) {})
			if len(ng.frames) == 0 {
				ng.done = true
			} else {
				ng.pend = &syncOp{desc: "start", ready: func() bool { return true }, exec: func() {}}
			}
			fin(nil)
		}
		w.syncPoint(g, op, w.cfg.Gran >= 1)
	})
	h("vYield", func(w *World, g *G, a []Value, fin func(Value)) {
		op := &syncOp{desc: "vYield", free: true, ready: func() bool { return true }, exec: func() { fin(nil) }}
		w.syncPoint(g, op, true)
	})
	h("vQuiesce", func(w *World, g *G, a []Value, fin func(Value)) {
		// blocks until no other goroutine can make progress (the environment waits for the
		// system under test to finish what it is doing)
		op := &syncOp{desc: "vQuiesce", quiesce: true, free: true, exec: func() { fin(nil) }}
		op.ready = func() bool {
			for _, x := range w.gs {
				if x == g || x.done || x.pend == nil || x.pend.quiesce {
					continue
				}
				if x.pend.ready() {
					return false
				}
			}
			return true
		}
		w.syncPoint(g, op, true)
	})
	h("vDaemon", func(w *World, g *G, a []Value, fin func(Value)) {
		g.daemon = true
		fin(nil)
	})
	h("vAtEnd", func(w *World, g *G, a []Value, fin func(Value)) {
		w.atEnd = append(w.atEnd, a[0])
		fin(nil)
	})
	h("vBlocked", func(w *World, g *G, a []Value, fin func(Value)) {
		// number of non-daemon goroutines that have not exited (valid inside vAtEnd callbacks)
		n := 0
		for _, x := range w.gs {
			if !x.done && !x.daemon && x != g {
				n++
			}
		}
		fin(w.intTerm(n))
	})
	h("vBlockedNames", func(w *World, g *G, a []Value, fin func(Value)) {
		var names []string
		for _, x := range w.gs {
			if !x.done && !x.daemon && x != g {
				d := "?"
				if x.pend != nil {
					d = x.pend.desc
				}
				top := ""
				for i := len(x.frames) - 1; i >= 0; i-- {
					top = x.frames[i].fn.String()
					if !strings.HasPrefix(top, "(*sync.") && !strings.HasPrefix(top, "sync.") {
						break
					}
				}
				names = append(names, fmt.Sprintf("g%d(%s) at %s in %s", x.id, x.name, d, top))
			}
		}
		s := strings.Join(names, "; ")
		w.tracef("blocked: %s", s)
		fin(w.strConst(s))
	})
	h("vSetPoolReuse", func(w *World, g *G, a []Value, fin func(Value)) {
		w.poolReuse = a[0].(*Term).IsTrue()
		fin(nil)
	})
	h("vSetMapOrder", func(w *World, g *G, a []Value, fin func(Value)) {
		w.mapOrder = a[0].(*Term).IsTrue()
		fin(nil)
	})
	h("vSetTimersAnywhere", func(w *World, g *G, a []Value, fin func(Value)) {
		w.timersAnywhere = a[0].(*Term).IsTrue()
		fin(nil)
	})
	h("vSetOneShotTimers", func(w *World, g *G, a []Value, fin func(Value)) {
		w.noOneShot = !a[0].(*Term).IsTrue()
		fin(nil)
	})
	h("vSetOneShotMax", func(w *World, g *G, a []Value, fin func(Value)) {
		w.oneShotMax = int64(w.argInt(a[0]))
		fin(nil)
	})
	h("vSetClockStep", func(w *World, g *G, a []Value, fin func(Value)) {
		w.clockStep = w.argInt(a[0])
		fin(nil)
	})
	h("vSetTimerBudget", func(w *World, g *G, a []Value, fin func(Value)) {
		w.timerBudget = w.argInt(a[0])
		fin(nil)
	})
	h("vParam", func(w *World, g *G, a []Value, fin func(Value)) {
		name := w.argStr(a[0])
		def := w.argInt(a[1])
		if v, ok := w.cfg.Params[name]; ok {
			def = v
		}
		fin(w.intTerm(def))
	})
	h("vSymbolic", func(w *World, g *G, a []Value, fin func(Value)) { fin(w.tt.True) })
	h("vCallers", func(w *World, g *G, a []Value, fin func(Value)) {
		var rc *Cell
		switch o := a[0].(type) {
		case Iface:
			if p, ok := o.v.(Ptr); ok {
				rc = p.c
			}
		case Ptr:
			rc = o.c
		}
		var s []string
		for _, e := range w.watchLog {
			if e.recv == rc {
				s = append(s, e.caller)
			}
		}
		fin(w.strConst(strings.Join(s, "|")))
	})
}
