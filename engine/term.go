package engine

import (
	"fmt"
	"math"
	"math/bits"
	"strconv"
	"strings"
)

// Op is a term constructor.
type Op uint8

// Term constructors. Bool sort has W==0, bit-vectors W in {8,16,32,64}, float64 W==-64.
const (
	OpConst Op = iota
	OpSym
	OpNot
	OpAnd
	OpOr
	OpIte
	OpEq
	OpAdd
	OpSub
	OpMul
	OpUDiv
	OpURem
	OpSDiv
	OpSRem
	OpBAnd
	OpBOr
	OpBXor
	OpShl
	OpLShr
	OpAShr
	OpBNot
	OpNeg
	OpUlt
	OpUle
	OpSlt
	OpSle
	OpZExt
	OpSExt
	OpExtract // Val = hi<<8|lo
	OpFAdd
	OpFSub
	OpFMul
	OpFDiv
	OpFNeg
	OpFLt
	OpFLe
	OpFEq
	OpSToF // signed int -> float64 (RNE)
	OpUToF
	OpFToS // float64 -> signed int of width W (RTZ)
	OpFToU
)

var opNames = map[Op]string{
	OpNot: "not", OpAnd: "and", OpOr: "or", OpIte: "ite", OpEq: "=",
	OpAdd: "bvadd", OpSub: "bvsub", OpMul: "bvmul", OpUDiv: "bvudiv", OpURem: "bvurem",
	OpSDiv: "bvsdiv", OpSRem: "bvsrem", OpBAnd: "bvand", OpBOr: "bvor", OpBXor: "bvxor",
	OpShl: "bvshl", OpLShr: "bvlshr", OpAShr: "bvashr", OpBNot: "bvnot", OpNeg: "bvneg",
	OpUlt: "bvult", OpUle: "bvule", OpSlt: "bvslt", OpSle: "bvsle",
	OpFAdd: "fp.add RNE", OpFSub: "fp.sub RNE", OpFMul: "fp.mul RNE", OpFDiv: "fp.div RNE", OpFNeg: "fp.neg",
	OpFLt: "fp.lt", OpFLe: "fp.leq", OpFEq: "fp.eq",
}

// Term is a hash-consed SMT term.
type Term struct {
	Op   Op
	W    int
	Args []*Term
	Val  uint64 // constants (bool: 0/1; float: IEEE bits), extract bounds
	Name string // symbols
	ID   int
}

// IsConst reports whether t is a constant.
func (t *Term) IsConst() bool { return t.Op == OpConst }

// IsTrue / IsFalse for boolean constants.
func (t *Term) IsTrue() bool  { return t.Op == OpConst && t.W == 0 && t.Val == 1 }
func (t *Term) IsFalse() bool { return t.Op == OpConst && t.W == 0 && t.Val == 0 }

// TermTable hash-conses terms. One per worker (not concurrency-safe).
type TermTable struct {
	tab   map[string]*Term
	syms  map[string]*Term
	next  int
	True  *Term
	False *Term
}

// NewTermTable returns an empty table.
func NewTermTable() *TermTable {
	tt := &TermTable{tab: map[string]*Term{}, syms: map[string]*Term{}}
	tt.True = tt.Bool(true)
	tt.False = tt.Bool(false)
	return tt
}

func mask(w int) uint64 {
	if w >= 64 {
		return ^uint64(0)
	}
	return (uint64(1) << uint(w)) - 1
}

func (tt *TermTable) mk(op Op, w int, val uint64, name string, args ...*Term) *Term {
	var sb strings.Builder
	sb.WriteString(strconv.Itoa(int(op)))
	sb.WriteByte(':')
	sb.WriteString(strconv.Itoa(w))
	sb.WriteByte(':')
	sb.WriteString(strconv.FormatUint(val, 16))
	sb.WriteByte(':')
	sb.WriteString(name)
	for _, a := range args {
		sb.WriteByte(',')
		sb.WriteString(strconv.Itoa(a.ID))
	}
	k := sb.String()
	if t, ok := tt.tab[k]; ok {
		return t
	}
	t := &Term{Op: op, W: w, Val: val, Name: name, ID: tt.next}
	if len(args) > 0 {
		t.Args = append([]*Term(nil), args...)
	}
	tt.next++
	tt.tab[k] = t
	return t
}

// Bool constant.
func (tt *TermTable) Bool(b bool) *Term {
	if b {
		return tt.mk(OpConst, 0, 1, "")
	}
	return tt.mk(OpConst, 0, 0, "")
}

// BV constant of width w.
func (tt *TermTable) BV(v uint64, w int) *Term { return tt.mk(OpConst, w, v&mask(w), "") }

// F64 constant.
func (tt *TermTable) F64(f float64) *Term { return tt.mk(OpConst, -64, math.Float64bits(f), "") }

// Sym returns the symbol with the given name and width (created on first use).
func (tt *TermTable) Sym(name string, w int) *Term {
	if t, ok := tt.syms[name]; ok {
		if t.W != w {
			panic("symbol " + name + " redeclared with different width")
		}
		return t
	}
	t := tt.mk(OpSym, w, 0, name)
	tt.syms[name] = t
	return t
}

func sext(v uint64, w int) int64 {
	if w >= 64 {
		return int64(v)
	}
	sh := uint(64 - w)
	return int64(v<<sh) >> sh
}

// Not builds boolean negation.
func (tt *TermTable) Not(a *Term) *Term {
	if a.IsConst() {
		return tt.Bool(a.Val == 0)
	}
	if a.Op == OpNot {
		return a.Args[0]
	}
	return tt.mk(OpNot, 0, 0, "", a)
}

// And builds conjunction.
func (tt *TermTable) And(a, b *Term) *Term {
	if a.IsFalse() || b.IsFalse() {
		return tt.False
	}
	if a.IsTrue() {
		return b
	}
	if b.IsTrue() {
		return a
	}
	if a == b {
		return a
	}
	if a.ID > b.ID {
		a, b = b, a
	}
	return tt.mk(OpAnd, 0, 0, "", a, b)
}

// Or builds disjunction.
func (tt *TermTable) Or(a, b *Term) *Term {
	if a.IsTrue() || b.IsTrue() {
		return tt.True
	}
	if a.IsFalse() {
		return b
	}
	if b.IsFalse() {
		return a
	}
	if a == b {
		return a
	}
	if a.ID > b.ID {
		a, b = b, a
	}
	return tt.mk(OpOr, 0, 0, "", a, b)
}

// Ite builds if-then-else over any sort.
func (tt *TermTable) Ite(c, a, b *Term) *Term {
	if c.IsTrue() {
		return a
	}
	if c.IsFalse() {
		return b
	}
	if a == b {
		return a
	}
	if a.W == 0 {
		if a.IsTrue() && b.IsFalse() {
			return c
		}
		if a.IsFalse() && b.IsTrue() {
			return tt.Not(c)
		}
	}
	return tt.mk(OpIte, a.W, 0, "", c, a, b)
}

// Eq builds equality (any sort except float, for which use FEq or bit equality explicitly).
func (tt *TermTable) Eq(a, b *Term) *Term {
	if a.W != b.W {
		panic(fmt.Sprintf("Eq width mismatch %d %d", a.W, b.W))
	}
	if a == b {
		return tt.True
	}
	if a.IsConst() && b.IsConst() {
		return tt.Bool(a.Val == b.Val)
	}
	if a.W == 0 {
		if a.IsTrue() {
			return b
		}
		if b.IsTrue() {
			return a
		}
		if a.IsFalse() {
			return tt.Not(b)
		}
		if b.IsFalse() {
			return tt.Not(a)
		}
	}
	// zext(x) == const that does not fit -> false; fits -> compare narrow
	if b.IsConst() && a.Op == OpZExt {
		in := a.Args[0]
		if b.Val&^mask(in.W) != 0 {
			return tt.False
		}
		return tt.Eq(in, tt.BV(b.Val, in.W))
	}
	if a.IsConst() && b.Op == OpZExt {
		return tt.Eq(b, a)
	}
	if a.ID > b.ID {
		a, b = b, a
	}
	return tt.mk(OpEq, 0, 0, "", a, b)
}

// Bin builds a binary bit-vector operation with constant folding.
func (tt *TermTable) Bin(op Op, a, b *Term) *Term {
	if a.W != b.W {
		panic(fmt.Sprintf("Bin %v width mismatch %d %d", opNames[op], a.W, b.W))
	}
	w := a.W
	if a.IsConst() && b.IsConst() {
		x, y := a.Val, b.Val
		m := mask(w)
		switch op {
		case OpAdd:
			return tt.BV(x+y, w)
		case OpSub:
			return tt.BV(x-y, w)
		case OpMul:
			return tt.BV(x*y, w)
		case OpUDiv:
			if y == 0 {
				return tt.BV(m, w)
			}
			return tt.BV(x/y, w)
		case OpURem:
			if y == 0 {
				return tt.BV(x, w)
			}
			return tt.BV(x%y, w)
		case OpSDiv:
			if y == 0 {
				break
			}
			sx, sy := sext(x, w), sext(y, w)
			if sy == -1 {
				return tt.BV(uint64(-sx), w)
			}
			return tt.BV(uint64(sx/sy), w)
		case OpSRem:
			if y == 0 {
				break
			}
			sx, sy := sext(x, w), sext(y, w)
			if sy == -1 {
				return tt.BV(0, w)
			}
			return tt.BV(uint64(sx%sy), w)
		case OpBAnd:
			return tt.BV(x&y, w)
		case OpBOr:
			return tt.BV(x|y, w)
		case OpBXor:
			return tt.BV(x^y, w)
		case OpShl:
			if y >= uint64(w) {
				return tt.BV(0, w)
			}
			return tt.BV(x<<y, w)
		case OpLShr:
			if y >= uint64(w) {
				return tt.BV(0, w)
			}
			return tt.BV(x>>y, w)
		case OpAShr:
			sx := sext(x, w)
			if y >= uint64(w) {
				y = uint64(w - 1)
			}
			return tt.BV(uint64(sx>>y), w)
		}
	}
	switch op {
	case OpAdd:
		if a.IsConst() && a.Val == 0 {
			return b
		}
		if b.IsConst() && b.Val == 0 {
			return a
		}
	case OpSub:
		if b.IsConst() && b.Val == 0 {
			return a
		}
		if a == b {
			return tt.BV(0, w)
		}
	case OpMul:
		if (a.IsConst() && a.Val == 0) || (b.IsConst() && b.Val == 0) {
			return tt.BV(0, w)
		}
		if a.IsConst() && a.Val == 1 {
			return b
		}
		if b.IsConst() && b.Val == 1 {
			return a
		}
	case OpBAnd:
		if (a.IsConst() && a.Val == 0) || (b.IsConst() && b.Val == 0) {
			return tt.BV(0, w)
		}
		if a.IsConst() && a.Val == mask(w) {
			return b
		}
		if b.IsConst() && b.Val == mask(w) {
			return a
		}
		if a == b {
			return a
		}
	case OpBOr, OpBXor:
		if a.IsConst() && a.Val == 0 {
			return b
		}
		if b.IsConst() && b.Val == 0 {
			return a
		}
		if a == b {
			if op == OpBOr {
				return a
			}
			return tt.BV(0, w)
		}
	case OpShl, OpLShr, OpAShr:
		if b.IsConst() && b.Val == 0 {
			return a
		}
		if b.IsConst() && b.Val >= uint64(w) && op != OpAShr {
			return tt.BV(0, w)
		}
		if a.IsConst() && a.Val == 0 {
			return a
		}
	}
	switch op {
	case OpAdd, OpMul, OpBAnd, OpBOr, OpBXor:
		if a.ID > b.ID {
			a, b = b, a
		}
	}
	return tt.mk(op, w, 0, "", a, b)
}

// Cmp builds a comparison.
func (tt *TermTable) Cmp(op Op, a, b *Term) *Term {
	if a.W != b.W {
		panic("Cmp width mismatch")
	}
	if a.IsConst() && b.IsConst() {
		switch op {
		case OpUlt:
			return tt.Bool(a.Val < b.Val)
		case OpUle:
			return tt.Bool(a.Val <= b.Val)
		case OpSlt:
			return tt.Bool(sext(a.Val, a.W) < sext(b.Val, a.W))
		case OpSle:
			return tt.Bool(sext(a.Val, a.W) <= sext(b.Val, a.W))
		}
	}
	if a == b {
		return tt.Bool(op == OpUle || op == OpSle)
	}
	if op == OpUlt && b.IsConst() && b.Val == 0 {
		return tt.False
	}
	if op == OpUle && a.IsConst() && a.Val == 0 {
		return tt.True
	}
	return tt.mk(op, 0, 0, "", a, b)
}

// Un builds bvnot / bvneg.
func (tt *TermTable) Un(op Op, a *Term) *Term {
	if a.IsConst() {
		if op == OpBNot {
			return tt.BV(^a.Val, a.W)
		}
		return tt.BV(-a.Val, a.W)
	}
	return tt.mk(op, a.W, 0, "", a)
}

// ZExt / SExt / Trunc to width w.
func (tt *TermTable) ZExt(a *Term, w int) *Term {
	if a.W == w {
		return a
	}
	if a.W > w {
		return tt.Extract(a, w-1, 0)
	}
	if a.IsConst() {
		return tt.BV(a.Val, w)
	}
	if a.Op == OpZExt {
		return tt.ZExt(a.Args[0], w)
	}
	return tt.mk(OpZExt, w, 0, "", a)
}

func (tt *TermTable) SExt(a *Term, w int) *Term {
	if a.W == w {
		return a
	}
	if a.W > w {
		return tt.Extract(a, w-1, 0)
	}
	if a.IsConst() {
		return tt.BV(uint64(sext(a.Val, a.W)), w)
	}
	return tt.mk(OpSExt, w, 0, "", a)
}

// Extract bits hi..lo.
func (tt *TermTable) Extract(a *Term, hi, lo int) *Term {
	w := hi - lo + 1
	if lo == 0 && w == a.W {
		return a
	}
	if a.IsConst() {
		return tt.BV(a.Val>>uint(lo), w)
	}
	if lo == 0 && (a.Op == OpZExt || a.Op == OpSExt) {
		in := a.Args[0]
		if in.W == w {
			return in
		}
		if in.W > w {
			return tt.Extract(in, hi, 0)
		}
		if a.Op == OpZExt {
			return tt.ZExt(in, w)
		}
		return tt.SExt(in, w)
	}
	return tt.mk(OpExtract, w, uint64(hi)<<8|uint64(lo), "", a)
}

// FBin builds a float64 binary op.
func (tt *TermTable) FBin(op Op, a, b *Term) *Term {
	if a.IsConst() && b.IsConst() {
		x, y := math.Float64frombits(a.Val), math.Float64frombits(b.Val)
		switch op {
		case OpFAdd:
			return tt.F64(x + y)
		case OpFSub:
			return tt.F64(x - y)
		case OpFMul:
			return tt.F64(x * y)
		case OpFDiv:
			return tt.F64(x / y)
		}
	}
	return tt.mk(op, -64, 0, "", a, b)
}

// FCmp builds a float comparison.
func (tt *TermTable) FCmp(op Op, a, b *Term) *Term {
	if a.IsConst() && b.IsConst() {
		x, y := math.Float64frombits(a.Val), math.Float64frombits(b.Val)
		switch op {
		case OpFLt:
			return tt.Bool(x < y)
		case OpFLe:
			return tt.Bool(x <= y)
		case OpFEq:
			return tt.Bool(x == y)
		}
	}
	return tt.mk(op, 0, 0, "", a, b)
}

// FNeg negates a float.
func (tt *TermTable) FNeg(a *Term) *Term {
	if a.IsConst() {
		return tt.F64(-math.Float64frombits(a.Val))
	}
	return tt.mk(OpFNeg, -64, 0, "", a)
}

// IntToF converts an integer term to float64.
func (tt *TermTable) IntToF(a *Term, signed bool) *Term {
	if a.IsConst() {
		if signed {
			return tt.F64(float64(sext(a.Val, a.W)))
		}
		return tt.F64(float64(a.Val))
	}
	if signed {
		return tt.mk(OpSToF, -64, 0, "", a)
	}
	return tt.mk(OpUToF, -64, 0, "", a)
}

// FToInt converts float64 to an integer of width w (Go semantics = truncation; out-of-range is
// implementation-defined in Go and left to the SMT semantics here).
func (tt *TermTable) FToInt(a *Term, w int, signed bool) *Term {
	if a.IsConst() {
		f := math.Float64frombits(a.Val)
		if signed && f > -9.2e18 && f < 9.2e18 {
			return tt.BV(uint64(int64(f)), w)
		}
		if !signed && f >= 0 && f < 1.8e19 {
			return tt.BV(uint64(f), w)
		}
	}
	if signed {
		return tt.mk(OpFToS, w, 0, "", a)
	}
	return tt.mk(OpFToU, w, 0, "", a)
}

func sortOf(w int) string {
	switch {
	case w == 0:
		return "Bool"
	case w == -64:
		return "(_ FloatingPoint 11 53)"
	}
	return fmt.Sprintf("(_ BitVec %d)", w)
}

func smtName(n string) string { return "|" + n + "|" }

func constSMT(t *Term) string {
	switch {
	case t.W == 0:
		if t.Val == 1 {
			return "true"
		}
		return "false"
	case t.W == -64:
		b := t.Val
		return fmt.Sprintf("(fp #b%d #b%011b #b%052b)", b>>63, (b>>52)&0x7ff, b&((1<<52)-1))
	case t.W%4 == 0:
		return fmt.Sprintf("#x%0*x", t.W/4, t.Val)
	}
	return fmt.Sprintf("#b%0*b", t.W, t.Val)
}

// headSMT renders t assuming each non-leaf argument is referenced by its defined name tN.
func headSMT(t *Term, ref func(*Term) string) string {
	switch t.Op {
	case OpConst:
		return constSMT(t)
	case OpSym:
		return smtName(t.Name)
	case OpZExt:
		return fmt.Sprintf("((_ zero_extend %d) %s)", t.W-t.Args[0].W, ref(t.Args[0]))
	case OpSExt:
		return fmt.Sprintf("((_ sign_extend %d) %s)", t.W-t.Args[0].W, ref(t.Args[0]))
	case OpExtract:
		return fmt.Sprintf("((_ extract %d %d) %s)", t.Val>>8, t.Val&0xff, ref(t.Args[0]))
	case OpSToF:
		return fmt.Sprintf("((_ to_fp 11 53) RNE %s)", ref(t.Args[0]))
	case OpUToF:
		return fmt.Sprintf("((_ to_fp_unsigned 11 53) RNE %s)", ref(t.Args[0]))
	case OpFToS:
		return fmt.Sprintf("((_ fp.to_sbv %d) RTZ %s)", t.W, ref(t.Args[0]))
	case OpFToU:
		return fmt.Sprintf("((_ fp.to_ubv %d) RTZ %s)", t.W, ref(t.Args[0]))
	}
	var sb strings.Builder
	sb.WriteByte('(')
	sb.WriteString(opNames[t.Op])
	for _, a := range t.Args {
		sb.WriteByte(' ')
		sb.WriteString(ref(a))
	}
	sb.WriteByte(')')
	return sb.String()
}

// Eval evaluates t under a model (symbol name -> value). Missing symbols are 0.
func Eval(t *Term, model map[string]uint64, memo map[*Term]uint64) uint64 {
	if v, ok := memo[t]; ok {
		return v
	}
	a := func(i int) uint64 { return Eval(t.Args[i], model, memo) }
	b2u := func(b bool) uint64 {
		if b {
			return 1
		}
		return 0
	}
	var r uint64
	w := t.W
	switch t.Op {
	case OpConst:
		r = t.Val
	case OpSym:
		r = model[t.Name] & maskAny(w)
	case OpNot:
		r = 1 - a(0)
	case OpAnd:
		r = a(0) & a(1)
	case OpOr:
		r = a(0) | a(1)
	case OpIte:
		if a(0) == 1 {
			r = a(1)
		} else {
			r = a(2)
		}
	case OpEq:
		r = b2u(a(0) == a(1))
	case OpAdd:
		r = (a(0) + a(1)) & mask(w)
	case OpSub:
		r = (a(0) - a(1)) & mask(w)
	case OpMul:
		r = (a(0) * a(1)) & mask(w)
	case OpUDiv:
		if a(1) == 0 {
			r = mask(w)
		} else {
			r = a(0) / a(1)
		}
	case OpURem:
		if a(1) == 0 {
			r = a(0)
		} else {
			r = a(0) % a(1)
		}
	case OpSDiv:
		x, y := sext(a(0), w), sext(a(1), w)
		switch {
		case y == 0:
			if x >= 0 {
				r = mask(w)
			} else {
				r = 1
			}
		case y == -1:
			r = uint64(-x) & mask(w)
		default:
			r = uint64(x/y) & mask(w)
		}
	case OpSRem:
		x, y := sext(a(0), w), sext(a(1), w)
		switch {
		case y == 0:
			r = a(0)
		case y == -1:
			r = 0
		default:
			r = uint64(x%y) & mask(w)
		}
	case OpBAnd:
		r = a(0) & a(1)
	case OpBOr:
		r = a(0) | a(1)
	case OpBXor:
		r = a(0) ^ a(1)
	case OpShl:
		if a(1) >= uint64(w) {
			r = 0
		} else {
			r = (a(0) << a(1)) & mask(w)
		}
	case OpLShr:
		if a(1) >= uint64(w) {
			r = 0
		} else {
			r = a(0) >> a(1)
		}
	case OpAShr:
		y := a(1)
		if y >= uint64(w) {
			y = uint64(w - 1)
		}
		r = uint64(sext(a(0), w)>>y) & mask(w)
	case OpBNot:
		r = ^a(0) & mask(w)
	case OpNeg:
		r = -a(0) & mask(w)
	case OpUlt:
		r = b2u(a(0) < a(1))
	case OpUle:
		r = b2u(a(0) <= a(1))
	case OpSlt:
		r = b2u(sext(a(0), t.Args[0].W) < sext(a(1), t.Args[0].W))
	case OpSle:
		r = b2u(sext(a(0), t.Args[0].W) <= sext(a(1), t.Args[0].W))
	case OpZExt:
		r = a(0)
	case OpSExt:
		r = uint64(sext(a(0), t.Args[0].W)) & mask(w)
	case OpExtract:
		hi, lo := int(t.Val>>8), int(t.Val&0xff)
		r = (a(0) >> uint(lo)) & mask(hi-lo+1)
	case OpFAdd:
		r = math.Float64bits(math.Float64frombits(a(0)) + math.Float64frombits(a(1)))
	case OpFSub:
		r = math.Float64bits(math.Float64frombits(a(0)) - math.Float64frombits(a(1)))
	case OpFMul:
		r = math.Float64bits(math.Float64frombits(a(0)) * math.Float64frombits(a(1)))
	case OpFDiv:
		r = math.Float64bits(math.Float64frombits(a(0)) / math.Float64frombits(a(1)))
	case OpFNeg:
		r = math.Float64bits(-math.Float64frombits(a(0)))
	case OpFLt:
		r = b2u(math.Float64frombits(a(0)) < math.Float64frombits(a(1)))
	case OpFLe:
		r = b2u(math.Float64frombits(a(0)) <= math.Float64frombits(a(1)))
	case OpFEq:
		r = b2u(math.Float64frombits(a(0)) == math.Float64frombits(a(1)))
	case OpSToF:
		r = math.Float64bits(float64(sext(a(0), t.Args[0].W)))
	case OpUToF:
		r = math.Float64bits(float64(a(0)))
	case OpFToS:
		r = uint64(int64(math.Float64frombits(a(0)))) & mask(w)
	case OpFToU:
		r = uint64(math.Float64frombits(a(0))) & mask(w)
	default:
		panic("Eval: unknown op")
	}
	memo[t] = r
	return r
}

func maskAny(w int) uint64 {
	if w == 0 {
		return 1
	}
	if w < 0 {
		return ^uint64(0)
	}
	return mask(w)
}

// Symbols collects the symbols occurring in t.
func Symbols(t *Term, seen map[*Term]bool, out *[]*Term) {
	if seen[t] {
		return
	}
	seen[t] = true
	if t.Op == OpSym {
		*out = append(*out, t)
	}
	for _, a := range t.Args {
		Symbols(a, seen, out)
	}
}

var _ = bits.Len64
