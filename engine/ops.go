package engine

import (
	"fmt"
	"go/token"
	"go/types"

	"golang.org/x/tools/go/ssa"
)

func isUnsigned(t types.Type) bool {
	b, ok := t.Underlying().(*types.Basic)
	return ok && b.Info()&types.IsUnsigned != 0
}

func isString(t types.Type) bool {
	b, ok := t.Underlying().(*types.Basic)
	return ok && b.Info()&types.IsString != 0
}

// valueEq builds the boolean term "a == b" for comparable Go values.
func (w *World) valueEq(a, b Value) *Term {
	switch x := a.(type) {
	case *Term:
		y := b.(*Term)
		if x.W == -64 {
			return w.tt.FCmp(OpFEq, x, y)
		}
		return w.tt.Eq(x, y)
	case Ptr:
		switch y := b.(type) {
		case Ptr:
			return w.tt.Bool(x.c == y.c)
		case BytePtr:
			return w.tt.False
		}
	case BytePtr:
		if y, ok := b.(BytePtr); ok {
			return w.tt.Bool(x.a == y.a && x.i == y.i)
		}
		return w.tt.False
	case Str:
		y := b.(Str)
		if x.len != y.len {
			return w.tt.False
		}
		if x.a == y.a && x.off == y.off {
			return w.tt.True
		}
		r := w.tt.True
		for i := 0; i < x.len; i++ {
			r = w.tt.And(r, w.tt.Eq(x.a.get(w, x.off+i), y.a.get(w, y.off+i)))
			if r.IsFalse() {
				return r
			}
		}
		return r
	case Iface:
		y, ok := b.(Iface)
		if !ok {
			w.abort("internal: comparing interface with %T", b)
		}
		if x.t == nil || y.t == nil {
			return w.tt.Bool(x.t == nil && y.t == nil)
		}
		if !types.Identical(x.t, y.t) {
			return w.tt.False
		}
		return w.valueEq(x.v, y.v)
	case *Closure:
		y, _ := b.(*Closure)
		return w.tt.Bool(x == nil && y == nil)
	case MapV:
		return w.tt.Bool(x.m == b.(MapV).m)
	case ChanV:
		return w.tt.Bool(x.c == b.(ChanV).c)
	case Slice:
		y := b.(Slice)
		return w.tt.Bool(x.a == nil && y.a == nil)
	case Struct:
		y := b.(Struct)
		r := w.tt.True
		for i := range x.f {
			r = w.tt.And(r, w.valueEq(x.f[i], y.f[i]))
		}
		return r
	case ArrayV:
		y := b.(ArrayV)
		r := w.tt.True
		for i := range x.e {
			r = w.tt.And(r, w.valueEq(x.e[i], y.e[i]))
		}
		return r
	case *Opaque:
		y, _ := b.(*Opaque)
		return w.tt.Bool(x == y)
	case nil:
		return w.tt.Bool(b == nil)
	}
	w.abort("UNSUPPORTED comparison of %T and %T", a, b)
	return nil
}

func (w *World) binop(g *G, op token.Token, x, y Value, xt, yt types.Type) (Value, bool) {
	switch op {
	case token.EQL:
		return w.valueEq(x, y), true
	case token.NEQ:
		return w.tt.Not(w.valueEq(x, y)), true
	}
	if sx, ok := x.(Str); ok {
		sy := y.(Str)
		switch op {
		case token.ADD:
			return w.strConcat(sx, sy), true
		case token.LSS, token.LEQ, token.GTR, token.GEQ:
			a, ok1 := w.concreteStr(sx)
			b, ok2 := w.concreteStr(sy)
			if !ok1 || !ok2 {
				w.abort("UNSUPPORTED ordered comparison of symbolic strings")
			}
			var r bool
			switch op {
			case token.LSS:
				r = a < b
			case token.LEQ:
				r = a <= b
			case token.GTR:
				r = a > b
			case token.GEQ:
				r = a >= b
			}
			return w.tt.Bool(r), true
		}
	}
	a, okA := x.(*Term)
	b, okB := y.(*Term)
	if !okA || !okB {
		w.abort("UNSUPPORTED binop %v on %T,%T", op, x, y)
	}
	if a.W == -64 {
		switch op {
		case token.ADD:
			return w.tt.FBin(OpFAdd, a, b), true
		case token.SUB:
			return w.tt.FBin(OpFSub, a, b), true
		case token.MUL:
			return w.tt.FBin(OpFMul, a, b), true
		case token.QUO:
			return w.tt.FBin(OpFDiv, a, b), true
		case token.LSS:
			return w.tt.FCmp(OpFLt, a, b), true
		case token.LEQ:
			return w.tt.FCmp(OpFLe, a, b), true
		case token.GTR:
			return w.tt.FCmp(OpFLt, b, a), true
		case token.GEQ:
			return w.tt.FCmp(OpFLe, b, a), true
		}
		w.abort("UNSUPPORTED float op %v", op)
	}
	if a.W == 0 {
		switch op {
		case token.AND, token.LAND:
			return w.tt.And(a, b), true
		case token.OR, token.LOR:
			return w.tt.Or(a, b), true
		}
		w.abort("UNSUPPORTED bool op %v", op)
	}
	uns := isUnsigned(xt)
	switch op {
	case token.ADD:
		return w.tt.Bin(OpAdd, a, b), true
	case token.SUB:
		return w.tt.Bin(OpSub, a, b), true
	case token.MUL:
		return w.tt.Bin(OpMul, a, b), true
	case token.QUO, token.REM:
		if w.branch(w.tt.Eq(b, w.tt.BV(0, b.W))) {
			w.goPanic(g, "integer divide by zero", nil)
			return nil, false
		}
		var o Op
		switch {
		case op == token.QUO && uns:
			o = OpUDiv
		case op == token.QUO:
			o = OpSDiv
		case uns:
			o = OpURem
		default:
			o = OpSRem
		}
		return w.tt.Bin(o, a, b), true
	case token.AND:
		return w.tt.Bin(OpBAnd, a, b), true
	case token.OR:
		return w.tt.Bin(OpBOr, a, b), true
	case token.XOR:
		return w.tt.Bin(OpBXor, a, b), true
	case token.AND_NOT:
		return w.tt.Bin(OpBAnd, a, w.tt.Un(OpBNot, b)), true
	case token.SHL, token.SHR:
		if !isUnsigned(yt) {
			if w.branch(w.tt.Cmp(OpSlt, b, w.tt.BV(0, b.W))) {
				w.goPanic(g, "negative shift amount", nil)
				return nil, false
			}
		}
		var o Op
		switch {
		case op == token.SHL:
			o = OpShl
		case uns:
			o = OpLShr
		default:
			o = OpAShr
		}
		var amt *Term
		if b.W <= a.W {
			amt = w.tt.ZExt(b, a.W)
			return w.tt.Bin(o, a, amt), true
		}
		amt = w.tt.Extract(b, a.W-1, 0)
		big := w.tt.Cmp(OpUle, w.tt.BV(uint64(a.W), b.W), b)
		over := w.tt.Bin(o, a, w.tt.BV(uint64(a.W), a.W)) // shifting by >= width
		return w.tt.Ite(big, over, w.tt.Bin(o, a, amt)), true
	case token.LSS:
		if uns {
			return w.tt.Cmp(OpUlt, a, b), true
		}
		return w.tt.Cmp(OpSlt, a, b), true
	case token.LEQ:
		if uns {
			return w.tt.Cmp(OpUle, a, b), true
		}
		return w.tt.Cmp(OpSle, a, b), true
	case token.GTR:
		if uns {
			return w.tt.Cmp(OpUlt, b, a), true
		}
		return w.tt.Cmp(OpSlt, b, a), true
	case token.GEQ:
		if uns {
			return w.tt.Cmp(OpUle, b, a), true
		}
		return w.tt.Cmp(OpSle, b, a), true
	}
	w.abort("UNSUPPORTED integer op %v", op)
	return nil, false
}

func (w *World) strConcat(a, b Str) Str {
	if a.len == 0 {
		return b
	}
	if b.len == 0 {
		return a
	}
	arr := w.newByteArr(a.len+b.len, "")
	for i := 0; i < a.len; i++ {
		arr.set(i, a.a.get(w, a.off+i))
	}
	for i := 0; i < b.len; i++ {
		arr.set(a.len+i, b.a.get(w, b.off+i))
	}
	return Str{arr, 0, a.len + b.len}
}

func (w *World) convert(g *G, x Value, from, to types.Type) (Value, bool) {
	fu, tu := from.Underlying(), to.Underlying()
	// string <-> []byte
	if isString(tu) {
		switch v := x.(type) {
		case Str:
			return v, true
		case Slice:
			if v.len == 0 {
				return Str{}, true
			}
			arr := w.newByteArr(v.len, "")
			for i := 0; i < v.len; i++ {
				arr.set(i, w.arrGet(v.a, v.off+i).(*Term))
			}
			return Str{arr, 0, v.len}, true
		case *Term:
			if v.IsConst() {
				return w.strConst(string(rune(sext(v.Val, v.W)))), true
			}
			w.abort("UNSUPPORTED string(symbolic rune)")
		}
	}
	if sl, ok := tu.(*types.Slice); ok {
		if s, ok := x.(Str); ok {
			if !isByteType(sl.Elem()) {
				w.abort("UNSUPPORTED []rune(string)")
			}
			arr := w.newByteArr(s.len, "")
			for i := 0; i < s.len; i++ {
				arr.set(i, s.a.get(w, s.off+i))
			}
			return Slice{arr, 0, s.len, s.len}, true
		}
		return x, true
	}
	if _, ok := tu.(*types.Pointer); ok {
		return x, true // unsafe.Pointer -> *T keeps the cell
	}
	if b, ok := tu.(*types.Basic); ok && b.Kind() == types.UnsafePointer {
		if _, isPtr := fu.(*types.Pointer); isPtr {
			return x, true
		}
		w.abort("UNSUPPORTED conversion uintptr -> unsafe.Pointer")
	}
	t, ok := x.(*Term)
	if !ok {
		w.abort("UNSUPPORTED conversion %v -> %v", from, to)
	}
	fb, ok1 := fu.(*types.Basic)
	tb, ok2 := tu.(*types.Basic)
	if !ok1 || !ok2 {
		w.abort("UNSUPPORTED conversion %v -> %v", from, to)
	}
	fw, fs, _ := basicWidth(fb)
	tw, ts, _ := basicWidth(tb)
	switch {
	case fw == -64 && tw == -64:
		return t, true
	case fw == -64:
		return w.tt.FToInt(t, tw, ts), true
	case tw == -64:
		return w.tt.IntToF(t, fs), true
	case tw == fw:
		return t, true
	case tw < fw:
		return w.tt.Extract(t, tw-1, 0), true
	case fs:
		return w.tt.SExt(t, tw), true
	default:
		return w.tt.ZExt(t, tw), true
	}
}

func (w *World) arrGet(a *Arr, i int) Value {
	if a.isBytes {
		return a.get(w, i)
	}
	return w.load(a.cells[i])
}

func (w *World) arrSet(a *Arr, i int, v Value) {
	w.touch(a.id, true)
	if a.isBytes {
		a.set(i, v.(*Term))
		return
	}
	w.store(a.cells[i], v)
}

func (w *World) intTerm(n int) *Term { return w.tt.BV(uint64(int64(n)), 64) }

// builtin implements Go's predeclared functions.
func (w *World) builtin(g *G, fr *Frame, name string, args []Value, c *ssa.CallCommon, fin func(Value)) {
	switch name {
	case "len":
		switch x := args[0].(type) {
		case Slice:
			fin(w.intTerm(x.len))
		case Str:
			fin(w.intTerm(x.len))
		case MapV:
			if x.m == nil {
				fin(w.intTerm(0))
			} else {
				w.touch(x.m.id, false)
				fin(w.intTerm(len(x.m.keys)))
			}
		case ChanV:
			if x.c == nil {
				fin(w.intTerm(0))
				return
			}
			ch := x.c
			op := &syncOp{desc: "len(chan)", ready: func() bool { return true }, exec: func() { w.touch(ch.id, false); fin(w.intTerm(len(ch.buf))) }}
			w.syncPoint(g, op, w.cfg.Gran >= 2)
		case ArrayV:
			fin(w.intTerm(len(x.e)))
		case Ptr:
			fin(w.intTerm(len(x.c.fields)))
		default:
			w.abort("UNSUPPORTED len(%T)", x)
		}
	case "cap":
		switch x := args[0].(type) {
		case Slice:
			fin(w.intTerm(x.cap))
		case ChanV:
			if x.c == nil {
				fin(w.intTerm(0))
			} else {
				fin(w.intTerm(x.c.cap))
			}
		default:
			w.abort("UNSUPPORTED cap(%T)", x)
		}
	case "append":
		s, _ := args[0].(Slice)
		var addLen int
		var getAdd func(i int) Value
		switch e := args[1].(type) {
		case Slice:
			addLen = e.len
			getAdd = func(i int) Value { return w.arrGet(e.a, e.off+i) }
		case Str:
			addLen = e.len
			getAdd = func(i int) Value { return e.a.get(w, e.off+i) }
		default:
			w.abort("UNSUPPORTED append arg %T", e)
		}
		if addLen == 0 {
			fin(s)
			return
		}
		// snapshot the added elements first (they may alias the destination)
		tmp := make([]Value, addLen)
		for i := range tmp {
			tmp[i] = getAdd(i)
		}
		if s.a != nil && s.len+addLen <= s.cap {
			for i, v := range tmp {
				w.arrSet(s.a, s.off+s.len+i, v)
			}
			fin(Slice{s.a, s.off, s.len + addLen, s.cap})
			return
		}
		newCap := s.cap * 2
		if newCap < s.len+addLen {
			newCap = s.len + addLen
		}
		elem := c.Args[0].Type().Underlying().(*types.Slice).Elem()
		arr := w.newArr(newCap, elem)
		for i := 0; i < s.len; i++ {
			w.arrSet(arr, i, w.arrGet(s.a, s.off+i))
		}
		for i, v := range tmp {
			w.arrSet(arr, s.len+i, v)
		}
		fin(Slice{arr, 0, s.len + addLen, newCap})
	case "copy":
		d, _ := args[0].(Slice)
		n := d.len
		var get func(i int) Value
		switch e := args[1].(type) {
		case Slice:
			if e.len < n {
				n = e.len
			}
			get = func(i int) Value { return w.arrGet(e.a, e.off+i) }
		case Str:
			if e.len < n {
				n = e.len
			}
			get = func(i int) Value { return e.a.get(w, e.off+i) }
		}
		tmp := make([]Value, n)
		for i := range tmp {
			tmp[i] = get(i)
		}
		for i, v := range tmp {
			w.arrSet(d.a, d.off+i, v)
		}
		fin(w.intTerm(n))
	case "delete":
		m, _ := args[0].(MapV)
		if m.m != nil {
			w.touch(m.m.id, true)
			if idx := w.mapFind(m.m, args[1]); idx >= 0 {
				m.m.keys = append(append([]Value{}, m.m.keys[:idx]...), m.m.keys[idx+1:]...)
				m.m.vals = append(append([]Value{}, m.m.vals[:idx]...), m.m.vals[idx+1:]...)
			}
		}
		fin(nil)
	case "close":
		ch, _ := args[0].(ChanV)
		w.chanClose(g, ch.c, func() { fin(nil) })
	case "recover":
		var res Value = Iface{}
		if fr.rec != nil && fr.rec.fr.pan != nil {
			p := fr.rec.fr.pan
			fr.rec.fr.pan = nil
			if p.val != nil {
				res = p.val
			} else {
				res = Iface{t: types.Typ[types.String], v: w.strConst(p.msg)}
			}
		}
		fin(res)
	case "print", "println":
		fin(nil)
	case "ssa:wrapnilchk":
		if p, ok := args[0].(Ptr); ok && p.c == nil {
			w.goPanic(g, "value method called using nil pointer", nil)
			return
		}
		fin(args[0])
	case "min", "max":
		a, b := args[0].(*Term), args[1].(*Term)
		var lt *Term
		if isUnsigned(c.Args[0].Type()) {
			lt = w.tt.Cmp(OpUlt, a, b)
		} else {
			lt = w.tt.Cmp(OpSlt, a, b)
		}
		if name == "min" {
			fin(w.tt.Ite(lt, a, b))
		} else {
			fin(w.tt.Ite(lt, b, a))
		}
	default:
		w.abort("UNSUPPORTED builtin %s", name)
	}
}

var _ = fmt.Sprintf
