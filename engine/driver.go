package engine

import (
	"fmt"
	"os"
	"path/filepath"
	"sort"
	"strings"
	"sync"
	"time"

	"golang.org/x/tools/go/packages"
	"golang.org/x/tools/go/ssa"
	"golang.org/x/tools/go/ssa/ssautil"
)

// Stats are the measured counters of a run (summed over workers).
type Stats struct {
	Paths        int
	PathsOK      int
	PathsPruned  int
	PathsAborted int
	PathsCrashed int
	Forks        int
	SchedPoints  int
	FeasQueries  int
	Obligations  int
	Discharged   int
	TrivialObl   int
	Inconclusive int
	Goroutines   int
	HandlerCalls int
	Steps        int
	SolverQ      int
	SolverTime   time.Duration
	MaxDepth     int
	Terminal     int
	SleepPruned  int
}

func (s *Stats) add(o *Stats) {
	s.Paths += o.Paths
	s.PathsOK += o.PathsOK
	s.PathsPruned += o.PathsPruned
	s.PathsAborted += o.PathsAborted
	s.PathsCrashed += o.PathsCrashed
	s.Forks += o.Forks
	s.SchedPoints += o.SchedPoints
	s.FeasQueries += o.FeasQueries
	s.Obligations += o.Obligations
	s.Discharged += o.Discharged
	s.TrivialObl += o.TrivialObl
	s.Inconclusive += o.Inconclusive
	s.Goroutines += o.Goroutines
	s.HandlerCalls += o.HandlerCalls
	s.Steps += o.Steps
	s.SolverQ += o.SolverQ
	s.SolverTime += o.SolverTime
	if o.MaxDepth > s.MaxDepth {
		s.MaxDepth = o.MaxDepth
	}
	s.Terminal += o.Terminal
	s.SleepPruned += o.SleepPruned
}

// RunResult is the outcome of exploring one harness.
type RunResult struct {
	Harness    string
	Stats      Stats
	Violations []*Violation
	Aborts     []string
	Reached    map[string]int
	Asserted   map[string]int
	Funcs      map[string]bool
	Samples    []PathSample
	Wall       time.Duration
	Complete   bool
	Workers    int
	ViolCount  map[string]int
	violKept   map[string]int
	abortSeen  map[string]bool
	NonTrivial int
}

// PathSample is a written-out explored path for the evidence file.
type PathSample struct {
	Decisions string                 `json:"decisions"`
	Inputs    map[string]interface{} `json:"inputs,omitempty"`
	Trace     []string               `json:"trace,omitempty"`
	End       string                 `json:"end"`
	Kinds     map[string]string      `json:"kinds,omitempty"`
	Modelled  bool                   `json:"inputs_from_solver_model,omitempty"`
}

// Load builds SSA for /repo (current working tree) with the harness files overlaid as
// /repo/zz_verif_*.go.
func Load(repo string, harnessDir string) (*Interp, error) {
	overlay := map[string][]byte{}
	files, _ := filepath.Glob(filepath.Join(harnessDir, "*.go"))
	for _, f := range files {
		b, err := os.ReadFile(f)
		if err != nil {
			return nil, err
		}
		overlay[filepath.Join(repo, "zz_verif_"+filepath.Base(f))] = b
	}
	cfg := &packages.Config{
		Mode:    packages.LoadAllSyntax,
		Dir:     repo,
		Overlay: overlay,
		Env:     append(os.Environ(), "GOFLAGS=-mod=mod", "GOPROXY=off", "GOSUMDB=off", "GOTOOLCHAIN=local"),
	}
	pkgs, err := packages.Load(cfg, ".")
	if err != nil {
		return nil, err
	}
	var errs []string
	packages.Visit(pkgs, nil, func(p *packages.Package) {
		for _, e := range p.Errors {
			errs = append(errs, e.Error())
		}
	})
	if len(errs) > 0 {
		return nil, fmt.Errorf("package errors (harness does not build against the tree?):\n%s", strings.Join(errs, "\n"))
	}
	prog, spkgs := ssautil.AllPackages(pkgs, ssa.InstantiateGenerics)
	prog.Build()
	in := &Interp{Prog: prog, Pkg: spkgs[0], Fset: prog.Fset, intrinsics: map[string]intrinsic{}, Watch: map[string]bool{
		"(*github.com/hslam/rpc.Call).done":   true,
		"(*github.com/hslam/rpc.waiter).done": true,
		"(*github.com/hslam/rpc.Conn).Close":  true,
	}}
	in.initOK = map[string]bool{
		"github.com/hslam/rpc": true, "github.com/hslam/code": true, "github.com/hslam/buffer": true,
		"github.com/hslam/scheduler": true, "io": true, "github.com/hslam/socket": true, "context": true,
	}
	in.stubPkgs = map[string]bool{"github.com/hslam/log": true, "log": true, "fmt": true, "os": true}
	registerSyncIntrinsics(in.intrinsics)
	registerLibIntrinsics(in.intrinsics)
	registerHarnessIntrinsics(in.intrinsics)
	registerFuncsIntrinsics(in.intrinsics)
	return in, nil
}

// Harnesses lists the harness entry points (functions named zzH_*) in the package.
func (in *Interp) Harnesses() []string {
	var out []string
	for name, m := range in.Pkg.Members {
		if _, ok := m.(*ssa.Function); ok && strings.HasPrefix(name, "zzH_") {
			out = append(out, strings.TrimPrefix(name, "zzH_"))
		}
	}
	sort.Strings(out)
	return out
}

type worker struct {
	in      *Interp
	cfg     *Config
	tt      *TermTable
	sol     *Solver
	res     *RunResult
	mu      *sync.Mutex
	keep    int
	base    *World
	sigSeen map[string]int
}

func (wk *worker) newWorld(ex *Explorer, st *Stats) *World {
	w := &World{in: wk.in, cfg: wk.cfg, tt: wk.tt, sol: wk.sol, ex: ex, stats: st}
	w.zero8 = wk.tt.BV(0, 8)
	w.globals = map[*ssa.Global]*Cell{}
	w.strCache = map[string]*Arr{}
	w.mutexes = map[*Cell]*mutexState{}
	w.conds = map[*Cell]*condState{}
	w.wgs = map[*Cell]*wgState{}
	w.onces = map[*Cell]bool{}
	w.pools = map[*Cell]*poolState{}
	w.smaps = map[*Cell]*MapObj{}
	w.funcsReg = map[*Cell]*MapObj{}
	w.symCount = map[string]int{}
	w.inputs = map[string]*Term{}
	w.inputKind = map[string]string{}
	w.reached = map[string]bool{}
	w.fnSeen = map[string]bool{}
	w.asserted = map[string]int{}
	w.initDone = map[*ssa.Package]bool{}
	w.poolReuse = wk.cfg.PoolReuse
	w.mapOrder = wk.cfg.MapOrder
	w.timerBudget = wk.cfg.TimerBudget
	w.sigSeen = wk.sigSeen
	return w
}

// baseWorld runs the package initialisers once per worker and keeps the resulting heap.
func (wk *worker) baseWorld() (b *World, err string) {
	if wk.base != nil {
		return wk.base, ""
	}
	var st Stats
	b = wk.newWorld(&Explorer{}, &st)
	b.sigSeen = nil
	defer func() {
		if r := recover(); r != nil {
			if a, ok := r.(abortPath); ok {
				err = "package initialisation: " + a.reason
				return
			}
			err = fmt.Sprintf("package initialisation: engine error %v", r)
		}
	}()
	g0 := b.newG("init")
	b.cur = g0
	b.inAtEnd = true // synchronisation operations execute inline: initialisation is sequential
	b.callFn(g0, wk.in.Pkg.Func("init"), nil, nil, func(Value) {})
	b.run(g0)
	b.inAtEnd = false
	if !g0.done || len(b.gs) != 1 || len(b.ex.dec) != 0 || len(b.pc) != 0 {
		return nil, "package initialisation is not deterministic/sequential (goroutines, decisions or constraints created)"
	}
	wk.base = b
	return b, ""
}

// runPath executes one path (the explorer's current decision prefix, extended with default
// choices) and returns the world for inspection.
func (wk *worker) runPath(ex *Explorer, st *Stats) (w *World) {
	w = wk.newWorld(ex, st)
	defer func() {
		if r := recover(); r != nil {
			switch x := r.(type) {
			case abortPath:
				w.end = EndAbort
				w.endMsg = x.reason
				w.ended = true
			case endPath:
			default:
				where := "?"
				if w.cur != nil && len(w.cur.frames) > 0 {
					fr := w.cur.frames[len(w.cur.frames)-1]
					where = fr.fn.String()
					if fr.pc < len(fr.blk.Instrs) {
						where += " @ " + w.in.Fset.Position(fr.blk.Instrs[fr.pc].Pos()).String() + " : " + fr.blk.Instrs[fr.pc].String()
					}
				}
				if os.Getenv("SSASYM_PANIC") != "" {
					panic(r)
				}
				w.end = EndAbort
				w.endMsg = fmt.Sprintf("ENGINE-ERROR %v in %s", r, where)
				w.ended = true
			}
		}
	}()
	hf := wk.in.Pkg.Func("zzH_" + wk.cfg.Harness)
	if hf == nil {
		w.abort("no harness function zzH_%s", wk.cfg.Harness)
	}
	base, berr := wk.baseWorld()
	if berr != "" {
		w.abort("%s", berr)
	}
	w.cloneFrom(base)
	g0 := w.newG("main")
	w.callFn(g0, hf, nil, nil, func(Value) {})
	w.schedule(g0)
	if !w.ended {
		st.Terminal++
		if !g0.done {
			// the harness's main goroutine is stuck: an event the environment was entitled to expect
			// never happened, and the assertions after that point were not evaluated
			desc := "?"
			if g0.pend != nil {
				desc = g0.pend.desc
			}
			v := &Violation{Kind: "assert", Label: "harness-main-blocked", Msg: "main harness goroutine blocked at " + desc}
			if len(g0.frames) > 0 {
				v.Site = w.siteOf(g0.frames[len(g0.frames)-1])
				v.Sites = []string{g0.frames[len(g0.frames)-1].fn.String() + "@" + w.in.Fset.Position(g0.frames[len(g0.frames)-1].blk.Instrs[g0.frames[len(g0.frames)-1].pc].Pos()).String()}
			}
			w.addViolation(v)
		}
		w.terminal()
	}
	return w
}

// terminal runs the vAtEnd callbacks on the quiescent state.
func (w *World) terminal() {
	if len(w.atEnd) == 0 {
		return
	}
	w.inAtEnd = true
	g := w.newG("atEnd")
	g.daemon = true
	for _, f := range w.atEnd {
		w.callValue(g, f, nil, func(Value) {})
		w.run(g)
		if w.ended {
			return
		}
		if g.pend != nil {
			w.abort("vAtEnd callback blocked at %s", g.pend.desc)
		}
		g.done = false
	}
	g.done = true
}

// Explore runs the harness over all paths within the configured bounds using nWorkers workers.
func Explore(in *Interp, cfg *Config, nWorkers int, solverBin string, timeoutMs int, deadline time.Time, maxViol int) (*RunResult, error) {
	if cfg.MaxSteps == 0 {
		cfg.MaxSteps = 4000000
	}
	if cfg.LoopBound == 0 {
		cfg.LoopBound = 40
	}
	if cfg.MaxConcr == 0 {
		cfg.MaxConcr = 64
	}
	res := &RunResult{Harness: cfg.Harness, Reached: map[string]int{}, Asserted: map[string]int{}, Funcs: map[string]bool{}, Workers: nWorkers, ViolCount: map[string]int{}, violKept: map[string]int{}, abortSeen: map[string]bool{}}
	t0 := time.Now()
	var mu sync.Mutex
	jobs := [][]Decision{nil}
	idle := 0
	cond := sync.NewCond(&mu)
	stop := false
	var firstErr error
	var wg sync.WaitGroup
	for i := 0; i < nWorkers; i++ {
		wg.Add(1)
		go func(id int) {
			defer wg.Done()
			tt := NewTermTable()
			sol, err := NewSolver(tt, solverBin, timeoutMs)
			if err != nil {
				mu.Lock()
				firstErr = err
				stop = true
				cond.Broadcast()
				mu.Unlock()
				return
			}
			defer sol.Close()
			wk := &worker{in: in, cfg: cfg, tt: tt, sol: sol, res: res, mu: &mu, sigSeen: map[string]int{}}
			var st Stats
			for {
				mu.Lock()
				for len(jobs) == 0 && !stop {
					idle++
					if idle == nWorkers {
						stop = true
						cond.Broadcast()
						break
					}
					cond.Wait()
					idle--
				}
				if stop {
					st.SolverQ = sol.Queries
					st.SolverTime = sol.Time
					res.Stats.add(&st)
					mu.Unlock()
					return
				}
				job := jobs[len(jobs)-1]
				jobs = jobs[:len(jobs)-1]
				mu.Unlock()

				ex := &Explorer{dec: append([]Decision{}, job...), frozen: len(job)}
				for {
					before := st.FeasQueries + st.Obligations - st.TrivialObl + st.SchedPoints
					w := wk.runPath(ex, &st)
					st.Paths++
					nontriv := st.FeasQueries+st.Obligations-st.TrivialObl+st.SchedPoints > before
					st.Steps += w.steps
					if len(ex.dec) > st.MaxDepth {
						st.MaxDepth = len(ex.dec)
					}
					switch w.end {
					case EndOK:
						st.PathsOK++
					case EndAssumeFalse:
						st.PathsPruned++
					case EndAbort:
						st.PathsAborted++
					case EndCrash:
						st.PathsCrashed++
					}
					mu.Lock()
					if nontriv && w.end != EndAssumeFalse {
						res.NonTrivial++
					}
					for k := range w.reached {
						res.Reached[k]++
					}
					for k, n := range w.asserted {
						res.Asserted[k] += n
					}
					for k := range w.fnSeen {
						res.Funcs[k] = true
					}
					if w.end == EndAbort {
						if !res.abortSeen[w.endMsg] && len(res.Aborts) < 20 {
							res.abortSeen[w.endMsg] = true
							res.Aborts = append(res.Aborts, w.endMsg+" @ "+decString(ex.snapshot()))
						}
					}
					for _, v := range w.violations {
						res.ViolCount[v.Sig]++
						if !v.Light && res.violKept[v.Sig] < 3 {
							res.violKept[v.Sig]++
							res.Violations = append(res.Violations, v)
						}
					}
					if dump := os.Getenv("SSASYM_DUMP"); dump != "" {
						f, _ := os.OpenFile(dump, os.O_APPEND|os.O_CREATE|os.O_WRONLY, 0o644)
						fmt.Fprintf(f, "PATH %s end=%s\n  %s\n", decString(ex.snapshot()), endString(w), strings.Join(w.trace, "\n  "))
						f.Close()
					}
					if show := os.Getenv("SSASYM_SHOW"); show != "" {
						if len(res.Samples) < 2 && strings.Count(strings.Join(w.trace, "\n"), show) >= showN() {
							res.Samples = append(res.Samples, PathSample{Decisions: decString(ex.snapshot()), Inputs: w.inputValues(nil), Trace: w.trace, End: endString(w)})
						}
					} else if len(res.Samples) < 6 && w.end != EndAssumeFalse && (len(res.Samples) < 3 || len(w.violations) > 0) {
						// inputs of a sample come from a solver model of the completed path's condition
						ps := PathSample{Decisions: decString(ex.snapshot()), Trace: tail(w.trace, traceTail()), End: endString(w), Kinds: map[string]string{}}
						var model map[string]uint64
						if w.end == EndOK && len(w.violations) == 0 {
							mu.Unlock()
							if r, m := wk.sol.Check(w.pc, nil, true); r == Sat {
								model = m
								ps.Modelled = true
							}
							mu.Lock()
						}
						ps.Inputs = w.inputValues(model)
						for k, x := range w.inputKind {
							ps.Kinds[k] = x
						}
						res.Samples = append(res.Samples, ps)
					}
					tooMany := maxViol > 0 && len(res.ViolCount) >= maxViol
					timedOut := time.Now().After(deadline)
					if tooMany || timedOut {
						if timedOut && !stop {
							res.Aborts = append(res.Aborts, "BUDGET exceeded: exploration stopped before completion")
						}
						stop = true
						cond.Broadcast()
					}
					// share work when others are idle
					if !stop && idle > 0 && len(jobs) == 0 {
						if more := ex.split(); more != nil {
							jobs = append(jobs, more...)
							cond.Broadcast()
						}
					}
					s := stop
					mu.Unlock()
					if s || !ex.next() {
						break
					}
				}
			}
		}(i)
	}
	wg.Wait()
	res.Wall = time.Since(t0)
	if firstErr != nil {
		return nil, firstErr
	}
	res.Complete = len(res.Aborts) == 0 && res.Stats.Inconclusive == 0
	return res, nil
}

func traceTail() int {
	if traceCalls {
		return 100000
	}
	return 30
}

func tail(s []string, n int) []string {
	if len(s) > n {
		return s[len(s)-n:]
	}
	return s
}

func endString(w *World) string {
	switch w.end {
	case EndOK:
		return "ok"
	case EndAssumeFalse:
		return "pruned"
	case EndAbort:
		return "abort: " + w.endMsg
	case EndCrash:
		return "crash: " + w.endMsg
	}
	return "?"
}

// DecisionsString renders a decision log.
func DecisionsString(d []Decision) string { return decString(d) }

func decString(d []Decision) string {
	var sb strings.Builder
	for i, x := range d {
		if x.forced {
			continue
		}
		if sb.Len() > 0 {
			sb.WriteByte(' ')
		}
		_ = i
		sb.WriteString(x.String())
	}
	return sb.String()
}

func showN() int {
	n := 1
	fmt.Sscan(os.Getenv("SSASYM_SHOW_N"), &n)
	return n
}
