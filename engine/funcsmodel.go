package engine

import (
	"go/types"
	"sort"

	"golang.org/x/tools/go/ssa"
)

// Model of github.com/hslam/funcs (reflection-driven method registry). The registry is rebuilt
// from go/types information about the registered object's method set, following registerName in
// funcs.go line by line: numIn/numOut of the bound method, errorOut, withContext; GetValueIn
// allocates a fresh zero value of the parameter's element type; Value.Interface panics on the zero
// Value exactly as reflect does; ValueCall invokes the method's SSA body.

type funcModel struct {
	name        string
	fn          *ssa.Function
	recv        Value
	sig         *types.Signature
	numIn       int
	numOut      int
	errorOut    int
	withContext int
	cell        *Cell
}

const funcsPkg = "github.com/hslam/funcs"

func (w *World) wrapReflect(v Iface) Struct {
	w.nextID++
	c := &Cell{id: w.nextID, v: v}
	return Struct{f: []Value{Ptr{c}, Ptr{}, w.tt.BV(1, 64)}}
}

func (w *World) unwrapReflect(g *G, v Value) (Iface, bool) {
	s := v.(Struct)
	p, _ := s.f[0].(Ptr)
	if p.c == nil {
		return Iface{}, false
	}
	return p.c.v.(Iface), true
}

func (w *World) funcModelOf(g *G, v Value) *funcModel {
	p, _ := v.(Ptr)
	if p.c == nil {
		w.goPanic(g, "invalid memory address or nil pointer dereference (*funcs.Func)", nil)
		return nil
	}
	o, _ := p.c.fields[0].v.(*Opaque)
	if o == nil {
		w.abort("internal: *funcs.Func without model")
	}
	return o.payload.(*funcModel)
}

// newError builds an error value of dynamic type *errors.errorString.
func (w *World) newError(text string) Iface {
	et := w.in.Prog.ImportedPackage("errors").Type("errorString").Type()
	c := w.newCell(et)
	w.store(c.fields[0], w.strConst(text))
	return Iface{t: types.NewPointer(et), v: Ptr{c}}
}

func isErrorType(t types.Type) bool {
	n, ok := t.(*types.Named)
	return ok && n.Obj().Pkg() == nil && n.Obj().Name() == "error"
}

func (w *World) funcsRegister(g *G, fcell *Cell, name string, useStructName bool, obj Iface) {
	if obj.t == nil {
		return
	}
	if useStructName {
		t := obj.t
		if p, ok := t.(*types.Pointer); ok {
			t = p.Elem()
		}
		if n, ok := t.(*types.Named); ok {
			name = n.Obj().Name()
		}
	}
	reg := w.funcsReg[fcell]
	if reg == nil {
		reg = &MapObj{}
		w.funcsReg[fcell] = reg
	}
	ms := w.in.Prog.MethodSets.MethodSet(obj.t)
	var sels []*types.Selection
	for i := 0; i < ms.Len(); i++ {
		if ms.At(i).Obj().Exported() {
			sels = append(sels, ms.At(i))
		}
	}
	sort.Slice(sels, func(i, j int) bool { return sels[i].Obj().Name() < sels[j].Obj().Name() })
	ft := w.in.Prog.ImportedPackage(funcsPkg).Type("Func").Type()
	for _, sel := range sels {
		fn := w.in.Prog.MethodValue(sel)
		sig := sel.Obj().Type().(*types.Signature)
		fm := &funcModel{name: name + "." + sel.Obj().Name(), fn: fn, recv: obj.v, sig: sig,
			numIn: sig.Params().Len(), numOut: sig.Results().Len()}
		if fm.numOut > 0 {
			if isErrorType(sig.Results().At(0).Type()) {
				fm.errorOut = 1
			} else if fm.numOut > 1 && isErrorType(sig.Results().At(1).Type()) {
				fm.errorOut = 2
			} else if fm.numOut == 1 {
				// funcs would index Out(1) and panic; registration of such a type is a harness error
				w.abort("funcs model: method %s has a single non-error result", fm.name)
			}
		}
		if sig.Params().Len() > 0 {
			if n, ok := sig.Params().At(0).Type().(*types.Named); ok && n.Obj().Pkg() != nil &&
				n.Obj().Pkg().Path() == "context" && n.Obj().Name() == "Context" {
				fm.withContext = 1
			}
		}
		c := w.newCell(ft)
		c.fields[0].v = &Opaque{tag: "funcModel", payload: fm}
		fm.cell = c
		key := w.strConst(fm.name)
		replaced := false
		for i, k := range reg.keys {
			if w.sameKey(k, key) {
				reg.vals[i] = Ptr{c}
				replaced = true
			}
		}
		if !replaced {
			reg.keys = append(reg.keys, key)
			reg.vals = append(reg.vals, Ptr{c})
		}
	}
}

func registerFuncsIntrinsics(m map[string]intrinsic) {
	p := "(*" + funcsPkg + ".Funcs)."
	m[p+"Register"] = func(w *World, g *G, a []Value, fin func(Value)) {
		c := w.recvCell(g, a[0])
		if c == nil {
			return
		}
		w.funcsRegister(g, c, "", true, a[1].(Iface))
		fin(Iface{})
	}
	m[p+"RegisterName"] = func(w *World, g *G, a []Value, fin func(Value)) {
		c := w.recvCell(g, a[0])
		if c == nil {
			return
		}
		w.funcsRegister(g, c, w.argStr(a[1]), false, a[2].(Iface))
		fin(Iface{})
	}
	m[p+"GetFunc"] = func(w *World, g *G, a []Value, fin func(Value)) {
		c := w.recvCell(g, a[0])
		if c == nil {
			return
		}
		w.touch(c.id, false)
		reg := w.funcsReg[c]
		if idx := w.mapFind(reg, a[1]); idx >= 0 {
			fin(reg.vals[idx])
			return
		}
		fin(Ptr{})
	}
	m[funcsPkg+".New"] = func(w *World, g *G, a []Value, fin func(Value)) {
		ft := w.in.Prog.ImportedPackage(funcsPkg).Type("Funcs").Type()
		fin(Ptr{w.newCell(ft)})
	}
	f := "(*" + funcsPkg + ".Func)."
	m[f+"WithContext"] = func(w *World, g *G, a []Value, fin func(Value)) {
		fm := w.funcModelOf(g, a[0])
		if fm == nil {
			return
		}
		fin(w.tt.Bool(fm.withContext == 1))
	}
	m[f+"ReturnOut"] = func(w *World, g *G, a []Value, fin func(Value)) {
		fm := w.funcModelOf(g, a[0])
		if fm == nil {
			return
		}
		fin(w.tt.Bool(fm.errorOut == 2))
	}
	m[f+"NumIn"] = func(w *World, g *G, a []Value, fin func(Value)) {
		fm := w.funcModelOf(g, a[0])
		if fm == nil {
			return
		}
		fin(w.intTerm(fm.numIn))
	}
	m[f+"GetValueIn"] = func(w *World, g *G, a []Value, fin func(Value)) {
		fm := w.funcModelOf(g, a[0])
		if fm == nil {
			return
		}
		i := int(w.concretize(a[1].(*Term), "GetValueIn index"))
		index := i + 1
		zero := w.zero(w.in.Prog.ImportedPackage(funcsPkg).Type("Value").Type())
		if index < 1 || index > fm.numIn {
			fin(zero)
			return
		}
		index += fm.withContext
		// methodType.In(index) counts the receiver as In(0)
		pi := index - 1
		if pi >= fm.sig.Params().Len() {
			w.goPanic(g, "reflect: Func index out of bounds", nil)
			return
		}
		pt, ok := fm.sig.Params().At(pi).Type().Underlying().(*types.Pointer)
		if !ok {
			w.goPanic(g, "reflect: Elem of invalid type", nil)
			return
		}
		c := w.newCell(pt.Elem())
		fin(w.wrapReflect(Iface{t: fm.sig.Params().At(pi).Type(), v: Ptr{c}}))
	}
	m[f+"ValueCall"] = func(w *World, g *G, a []Value, fin func(Value)) {
		fm := w.funcModelOf(g, a[0])
		if fm == nil {
			return
		}
		in, _ := a[1].(Slice)
		zero := w.zero(w.in.Prog.ImportedPackage(funcsPkg).Type("Value").Type())
		if in.len != fm.numIn {
			fin(Tuple{zero, w.newError("The number of params is not adapted")})
			return
		}
		args := []Value{fm.recv}
		for i := 0; i < in.len; i++ {
			iv, ok := w.unwrapReflect(g, w.arrGet(in.a, in.off+i))
			if !ok {
				w.goPanic(g, "reflect: Call using zero Value argument", nil)
				return
			}
			pt := fm.sig.Params().At(i).Type()
			if _, isI := pt.Underlying().(*types.Interface); isI {
				args = append(args, iv)
			} else {
				args = append(args, iv.v)
			}
		}
		w.stats.HandlerCalls++
		w.callFn(g, fm.fn, args, nil, func(res Value) {
			switch fm.errorOut {
			case 1:
				fin(Tuple{zero, res})
			case 2:
				t := res.(Tuple)
				rt := fm.sig.Results().At(0).Type()
				var iv Iface
				if _, isI := rt.Underlying().(*types.Interface); isI {
					iv, _ = t[0].(Iface)
				} else {
					iv = Iface{t: rt, v: t[0]}
				}
				fin(Tuple{w.wrapReflect(iv), t[1]})
			default:
				fin(Tuple{zero, Iface{}})
			}
		})
	}
	m["("+funcsPkg+".Value).Interface"] = func(w *World, g *G, a []Value, fin func(Value)) {
		iv, ok := w.unwrapReflect(g, a[0])
		if !ok {
			w.goPanic(g, "reflect: call of reflect.Value.Interface on zero Value", nil)
			return
		}
		fin(iv)
	}
	m[funcsPkg+".ValueOf"] = func(w *World, g *G, a []Value, fin func(Value)) {
		iv, _ := a[0].(Iface)
		if iv.t == nil {
			fin(w.zero(w.in.Prog.ImportedPackage(funcsPkg).Type("Value").Type()))
			return
		}
		fin(w.wrapReflect(iv))
	}
}
