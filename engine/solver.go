package engine

import (
	"bufio"
	"fmt"
	"io"
	"os"
	"os/exec"
	"strconv"
	"strings"
	"time"
)

// Result of a satisfiability query.
type Result int

const (
	Unsat Result = iota
	Sat
	Unknown
)

func (r Result) String() string { return [...]string{"unsat", "sat", "unknown"}[r] }

// Solver wraps one long-lived `z3 -in` process with an assertion stack that mirrors the current
// path condition (one push level per conjunct), so that consecutive queries along DFS-adjacent
// paths only transmit the differing suffix.
type Solver struct {
	Bin       string
	tt        *TermTable
	cmd       *exec.Cmd
	in        io.WriteCloser
	out       *bufio.Reader
	stack     []*Term
	defined   map[int]bool
	TimeoutMs int
	Queries   int
	Sat       int
	UnsatN    int
	UnknownN  int
	Errors    int
	Time      time.Duration
	sinceBoot int
	Log       io.Writer
	LastError string
}

// NewSolver starts z3.
func NewSolver(tt *TermTable, bin string, timeoutMs int) (*Solver, error) {
	s := &Solver{Bin: bin, tt: tt, TimeoutMs: timeoutMs}
	if err := s.boot(); err != nil {
		return nil, err
	}
	return s, nil
}

func (s *Solver) boot() error {
	if s.cmd != nil {
		s.in.Close()
		s.cmd.Process.Kill()
		s.cmd.Wait()
	}
	s.cmd = exec.Command(s.Bin, "-in")
	var err error
	s.in, err = s.cmd.StdinPipe()
	if err != nil {
		return err
	}
	op, err := s.cmd.StdoutPipe()
	if err != nil {
		return err
	}
	s.cmd.Stderr = os.Stderr
	if err := s.cmd.Start(); err != nil {
		return err
	}
	s.out = bufio.NewReaderSize(op, 1<<16)
	s.stack = nil
	s.defined = map[int]bool{}
	s.sinceBoot = 0
	s.send("(set-option :global-declarations true)\n(set-option :produce-models true)\n")
	s.send(fmt.Sprintf("(set-option :timeout %d)\n(set-logic ALL)\n", s.TimeoutMs))
	return nil
}

// Close terminates the solver process.
func (s *Solver) Close() {
	if s.cmd != nil {
		s.in.Close()
		s.cmd.Process.Kill()
		s.cmd.Wait()
		s.cmd = nil
	}
}

func (s *Solver) send(txt string) {
	if s.Log != nil {
		io.WriteString(s.Log, txt)
	}
	io.WriteString(s.in, txt)
}

func (s *Solver) readUntilMarker() []string {
	var lines []string
	for {
		l, err := s.out.ReadString('\n')
		l = strings.TrimRight(l, "\r\n")
		if l == "<<E>>" {
			return lines
		}
		if l != "" {
			lines = append(lines, l)
		}
		if err != nil {
			lines = append(lines, "(error \"solver pipe closed: "+err.Error()+"\")")
			return lines
		}
	}
}

// define emits declarations/definitions for t's sub-DAG and returns the reference text for t.
func (s *Solver) define(t *Term, sb *strings.Builder) string {
	switch t.Op {
	case OpConst:
		return constSMT(t)
	case OpSym:
		if !s.defined[t.ID] {
			s.defined[t.ID] = true
			fmt.Fprintf(sb, "(declare-const %s %s)\n", smtName(t.Name), sortOf(t.W))
		}
		return smtName(t.Name)
	}
	name := "t" + strconv.Itoa(t.ID)
	if s.defined[t.ID] {
		return name
	}
	refs := make(map[*Term]string, len(t.Args))
	for _, a := range t.Args {
		refs[a] = s.define(a, sb)
	}
	s.defined[t.ID] = true
	fmt.Fprintf(sb, "(define-fun %s () %s %s)\n", name, sortOf(t.W), headSMT(t, func(a *Term) string { return refs[a] }))
	return name
}

func (s *Solver) syncStack(pc []*Term, sb *strings.Builder) {
	k := 0
	for k < len(pc) && k < len(s.stack) && pc[k] == s.stack[k] {
		k++
	}
	if k < len(s.stack) {
		fmt.Fprintf(sb, "(pop %d)\n", len(s.stack)-k)
		s.stack = s.stack[:k]
	}
	for ; k < len(pc); k++ {
		ref := s.define(pc[k], sb)
		fmt.Fprintf(sb, "(push 1)\n(assert %s)\n", ref)
		s.stack = append(s.stack, pc[k])
	}
}

// Check decides pc ∧ extra. If wantModel and the answer is sat, the values of every symbol
// occurring in pc and extra are returned.
func (s *Solver) Check(pc []*Term, extra *Term, wantModel bool) (Result, map[string]uint64) {
	if s.sinceBoot > 20000 {
		s.boot()
	}
	t0 := time.Now()
	var sb strings.Builder
	s.syncStack(pc, &sb)
	ref := "true"
	if extra != nil {
		ref = s.define(extra, &sb)
	}
	fmt.Fprintf(&sb, "(push 1)\n(assert %s)\n(check-sat)\n(echo \"<<E>>\")\n", ref)
	s.send(sb.String())
	lines := s.readUntilMarker()
	s.Queries++
	s.sinceBoot++
	res := Unknown
	bad := false
	for _, l := range lines {
		switch {
		case l == "sat":
			res = Sat
		case l == "unsat":
			res = Unsat
		case l == "unknown":
			res = Unknown
		case strings.HasPrefix(l, "(error"):
			bad = true
			s.LastError = l
		}
	}
	if bad {
		s.Errors++
		res = Unknown
	}
	var model map[string]uint64
	if res == Sat && wantModel {
		var syms []*Term
		seen := map[*Term]bool{}
		for _, p := range pc {
			Symbols(p, seen, &syms)
		}
		if extra != nil {
			Symbols(extra, seen, &syms)
		}
		model = map[string]uint64{}
		if len(syms) > 0 {
			var q strings.Builder
			q.WriteString("(get-value (")
			for _, sy := range syms {
				q.WriteString(smtName(sy.Name))
				q.WriteByte(' ')
			}
			q.WriteString("))\n(echo \"<<E>>\")\n")
			s.send(q.String())
			txt := strings.Join(s.readUntilMarker(), "\n")
			if strings.Contains(txt, "(error") {
				s.Errors++
				s.LastError = txt
				res = Unknown
			} else {
				parseValues(txt, model)
			}
		}
	}
	s.send("(pop 1)\n")
	switch res {
	case Sat:
		s.Sat++
	case Unsat:
		s.UnsatN++
	default:
		s.UnknownN++
	}
	s.Time += time.Since(t0)
	return res, model
}

// ---- tiny s-expression reader for (get-value ...) answers ----

type sexp struct {
	atom string
	list []*sexp
}

func parseSexp(s string, i int) (*sexp, int) {
	for i < len(s) && (s[i] == ' ' || s[i] == '\n' || s[i] == '\t' || s[i] == '\r') {
		i++
	}
	if i >= len(s) {
		return nil, i
	}
	if s[i] == '(' {
		n := &sexp{list: []*sexp{}}
		i++
		for {
			for i < len(s) && (s[i] == ' ' || s[i] == '\n' || s[i] == '\t' || s[i] == '\r') {
				i++
			}
			if i >= len(s) {
				return n, i
			}
			if s[i] == ')' {
				return n, i + 1
			}
			var c *sexp
			c, i = parseSexp(s, i)
			if c == nil {
				return n, i
			}
			n.list = append(n.list, c)
		}
	}
	if s[i] == '|' {
		j := strings.IndexByte(s[i+1:], '|')
		return &sexp{atom: s[i+1 : i+1+j]}, i + j + 2
	}
	j := i
	for j < len(s) && !strings.ContainsRune(" \n\t\r()", rune(s[j])) {
		j++
	}
	return &sexp{atom: s[i:j]}, j
}

func sexpValue(v *sexp) (uint64, bool) {
	if v.list == nil {
		a := v.atom
		switch {
		case a == "true":
			return 1, true
		case a == "false":
			return 0, true
		case strings.HasPrefix(a, "#x"):
			u, err := strconv.ParseUint(a[2:], 16, 64)
			return u, err == nil
		case strings.HasPrefix(a, "#b"):
			u, err := strconv.ParseUint(a[2:], 2, 64)
			return u, err == nil
		}
		return 0, false
	}
	l := v.list
	if len(l) == 4 && l[0].atom == "fp" {
		sg, _ := sexpValue(l[1])
		ex, _ := sexpValue(l[2])
		mn, _ := sexpValue(l[3])
		return sg<<63 | ex<<52 | mn, true
	}
	if len(l) == 4 && l[0].atom == "_" {
		switch l[1].atom {
		case "+zero":
			return 0, true
		case "-zero":
			return 1 << 63, true
		case "+oo":
			return 0x7ff << 52, true
		case "-oo":
			return 0xfff << 52, true
		case "NaN":
			return 0x7ff8 << 48, true
		}
	}
	return 0, false
}

func parseValues(txt string, model map[string]uint64) {
	root, _ := parseSexp(txt, 0)
	if root == nil {
		return
	}
	for _, pair := range root.list {
		if len(pair.list) == 2 && pair.list[0].list == nil {
			if v, ok := sexpValue(pair.list[1]); ok {
				model[pair.list[0].atom] = v
			}
		}
	}
}
