package engine

import (
	"go/types"

	"golang.org/x/tools/go/ssa"
)

func (w *World) chanSend(g *G, ch *ChanObj, v Value, fin func()) {
	if ch == nil {
		w.syncPoint(g, &syncOp{desc: "send on nil chan", ready: func() bool { return false }, exec: func() {}}, true)
		return
	}
	if ch.cap == 0 {
		w.abort("UNSUPPORTED send on unbuffered channel")
	}
	op := &syncOp{desc: "chan send", chans: []*ChanObj{ch}}
	op.ready = func() bool { return ch.closed || len(ch.buf) < ch.cap }
	op.exec = func() {
		w.touch(ch.id, true)
		if ch.closed {
			w.goPanic(g, "send on closed channel", nil)
			return
		}
		ch.buf = append(ch.buf, v)
		fin()
	}
	w.syncPoint(g, op, w.cfg.Gran >= 1)
}

func (w *World) chanRecv(g *G, ch *ChanObj, commaOk bool, fin func(Value)) {
	if ch == nil {
		w.syncPoint(g, &syncOp{desc: "recv on nil chan", ready: func() bool { return false }, exec: func() {}}, true)
		return
	}
	if ch.cap == 0 && !ch.closed {
		// unbuffered channels are only supported as close-only signals
	}
	op := &syncOp{desc: "chan recv", chans: []*ChanObj{ch}}
	op.ready = func() bool { return ch.closed || len(ch.buf) > 0 }
	op.exec = func() {
		w.touch(ch.id, true)
		var v Value
		ok := true
		if len(ch.buf) > 0 {
			v = ch.buf[0]
			ch.buf = append([]Value{}, ch.buf[1:]...)
		} else {
			v = w.zero(ch.elem)
			ok = false
		}
		if commaOk {
			fin(Tuple{v, w.tt.Bool(ok)})
		} else {
			fin(v)
		}
	}
	w.syncPoint(g, op, w.cfg.Gran >= 1)
}

func (w *World) chanClose(g *G, ch *ChanObj, fin func()) {
	if ch == nil {
		w.goPanic(g, "close of nil channel", nil)
		return
	}
	op := &syncOp{desc: "chan close", ready: func() bool { return true }}
	op.exec = func() {
		w.touch(ch.id, true)
		if ch.closed {
			w.goPanic(g, "close of closed channel", nil)
			return
		}
		ch.closed = true
		fin()
	}
	w.syncPoint(g, op, w.cfg.Gran >= 1)
}

func (w *World) execSelect(g *G, fr *Frame, i *ssa.Select) {
	type scase struct {
		ch   *ChanObj
		send bool
		val  Value
	}
	cases := make([]scase, len(i.States))
	var chans []*ChanObj
	for k, st := range i.States {
		ch, _ := w.get(fr, st.Chan).(ChanV)
		cases[k] = scase{ch: ch.c, send: st.Dir == types.SendOnly}
		if cases[k].send {
			cases[k].val = w.get(fr, st.Send)
			if ch.c != nil && ch.c.cap == 0 {
				w.abort("UNSUPPORTED select send on unbuffered channel")
			}
		}
		if ch.c != nil {
			chans = append(chans, ch.c)
		}
	}
	enabled := func() []int {
		var en []int
		for k, c := range cases {
			if c.ch == nil {
				continue
			}
			if c.send {
				if c.ch.closed || len(c.ch.buf) < c.ch.cap {
					en = append(en, k)
				}
			} else if c.ch.closed || len(c.ch.buf) > 0 {
				en = append(en, k)
			}
		}
		return en
	}
	finish := func(idx int, recvOK bool, recvVals []Value) {
		t := Tuple{w.intTerm(idx), w.tt.Bool(recvOK)}
		// one extra result per receive case
		for k, st := range i.States {
			if st.Dir == types.RecvOnly {
				var v Value
				if k == idx && recvVals != nil {
					v = recvVals[0]
				} else {
					v = w.zero(st.Chan.Type().Underlying().(*types.Chan).Elem())
				}
				t = append(t, v)
			}
		}
		w.setReg(fr, i, t)
		fr.pc++
	}
	op := &syncOp{desc: "select", chans: chans}
	op.ready = func() bool { return !i.Blocking || len(enabled()) > 0 }
	op.exec = func() {
		for _, c := range chans {
			w.touch(c.id, true)
		}
		en := enabled()
		if len(en) == 0 {
			finish(-1, false, nil)
			return
		}
		k := en[0]
		if len(en) > 1 {
			k = en[w.ex.choose("select", len(en))]
		}
		c := cases[k]
		if c.send {
			if c.ch.closed {
				w.goPanic(g, "send on closed channel", nil)
				return
			}
			c.ch.buf = append(c.ch.buf, c.val)
			finish(k, false, nil)
			return
		}
		if len(c.ch.buf) > 0 {
			v := c.ch.buf[0]
			c.ch.buf = append([]Value{}, c.ch.buf[1:]...)
			finish(k, true, []Value{v})
			return
		}
		finish(k, false, []Value{w.zero(c.ch.elem)})
	}
	w.syncPoint(g, op, w.cfg.Gran >= 1)
}
