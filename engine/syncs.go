package engine

import (
	"fmt"
	"go/types"
	"sort"
	"strings"
)

type mutexState struct {
	locked  bool
	readers int
	owner   int
}

type condState struct {
	waiters []*condWaiter
}

type condWaiter struct {
	g        *G
	signaled bool
}

type wgState struct {
	n       int
	waiters []*wgWaiter
}

type wgWaiter struct {
	g        *G
	released bool
}

type poolState struct {
	items []Value
}

type timerState struct {
	dur      int64 // requested duration in ns when concrete, else 0
	ch       *ChanObj
	armed    bool
	periodic bool
	fires    int
	id       int
}

func (w *World) mutex(c *Cell) *mutexState {
	m, ok := w.mutexes[c]
	if !ok {
		m = &mutexState{}
		w.mutexes[c] = m
	}
	return m
}

func fieldIndex(t types.Type, name string) int {
	st := t.Underlying().(*types.Struct)
	for i := 0; i < st.NumFields(); i++ {
		if st.Field(i).Name() == name {
			return i
		}
	}
	panic("no field " + name + " in " + t.String())
}

func (w *World) recvCell(g *G, v Value) *Cell {
	p, _ := v.(Ptr)
	if p.c == nil {
		w.goPanic(g, "invalid memory address or nil pointer dereference (sync primitive)", nil)
		return nil
	}
	return p.c
}

func (w *World) lockOp(g *G, c *Cell, write bool, fin func()) *syncOp {
	m := w.mutex(c)
	op := &syncOp{desc: "Lock"}
	if write {
		op.ready = func() bool { return !m.locked && m.readers == 0 }
		op.exec = func() { w.touch(c.id, true); m.locked = true; m.owner = g.id; fin() }
	} else {
		op.desc = "RLock"
		op.ready = func() bool { return !m.locked }
		op.exec = func() { w.touch(c.id, true); m.readers++; fin() }
	}
	return op
}

func registerSyncIntrinsics(m map[string]intrinsic) {
	lock := func(write bool) intrinsic {
		return func(w *World, g *G, args []Value, fin func(Value)) {
			c := w.recvCell(g, args[0])
			if c == nil {
				return
			}
			w.syncPoint(g, w.lockOp(g, c, write, func() { fin(nil) }), w.cfg.Gran >= 1)
		}
	}
	unlock := func(write bool) intrinsic {
		return func(w *World, g *G, args []Value, fin func(Value)) {
			c := w.recvCell(g, args[0])
			if c == nil {
				return
			}
			ms := w.mutex(c)
			op := &syncOp{desc: "Unlock", ready: func() bool { return true }}
			op.exec = func() {
				w.touch(c.id, true)
				if write {
					if !ms.locked {
						w.goPanic(g, "sync: unlock of unlocked mutex", nil)
						return
					}
					ms.locked = false
				} else {
					if ms.readers == 0 {
						w.goPanic(g, "sync: RUnlock of unlocked RWMutex", nil)
						return
					}
					ms.readers--
				}
				fin(nil)
			}
			w.syncPoint(g, op, w.cfg.Gran >= 2)
		}
	}
	m["(*sync.Mutex).Lock"] = lock(true)
	m["(*sync.Mutex).Unlock"] = unlock(true)
	m["(*sync.RWMutex).Lock"] = lock(true)
	m["(*sync.RWMutex).Unlock"] = unlock(true)
	m["(*sync.RWMutex).RLock"] = lock(false)
	m["(*sync.RWMutex).RUnlock"] = unlock(false)

	// sync.Cond
	condMutex := func(w *World, g *G, c *Cell) *Cell {
		l, _ := w.load(c.fields[fieldIndex(c.typ, "L")]).(Iface)
		p, _ := l.v.(Ptr)
		if p.c == nil {
			w.goPanic(g, "sync.Cond with nil L", nil)
			return nil
		}
		return p.c
	}
	m["(*sync.Cond).Wait"] = func(w *World, g *G, args []Value, fin func(Value)) {
		c := w.recvCell(g, args[0])
		if c == nil {
			return
		}
		mc := condMutex(w, g, c)
		if mc == nil {
			return
		}
		cs := w.conds[c]
		if cs == nil {
			cs = &condState{}
			w.conds[c] = cs
		}
		first := &syncOp{desc: "Cond.Wait(enter)", ready: func() bool { return true }}
		first.exec = func() {
			w.touch(c.id, true)
			w.touch(mc.id, true)
			ms := w.mutex(mc)
			if !ms.locked {
				w.goPanic(g, "sync: unlock of unlocked mutex", nil)
				return
			}
			ms.locked = false
			cw := &condWaiter{g: g}
			cs.waiters = append(cs.waiters, cw)
			g.pend = &syncOp{desc: "Cond.Wait(parked)", ready: func() bool { return cw.signaled }, exec: func() {
				w.touch(c.id, true)
				g.pend = w.lockOp(g, mc, true, func() { fin(nil) })
				g.pend.desc = "Cond.Wait(relock)"
			}}
		}
		w.syncPoint(g, first, w.cfg.Gran >= 1)
	}
	wake := func(all bool) intrinsic {
		return func(w *World, g *G, args []Value, fin func(Value)) {
			c := w.recvCell(g, args[0])
			if c == nil {
				return
			}
			op := &syncOp{desc: "Cond.Signal", ready: func() bool { return true }}
			op.exec = func() {
				w.touch(c.id, true)
				if cs := w.conds[c]; cs != nil {
					for len(cs.waiters) > 0 {
						cs.waiters[0].signaled = true
						cs.waiters = cs.waiters[1:]
						if !all {
							break
						}
					}
				}
				fin(nil)
			}
			w.syncPoint(g, op, w.cfg.Gran >= 1)
		}
	}
	m["(*sync.Cond).Signal"] = wake(false)
	m["(*sync.Cond).Broadcast"] = wake(true)

	// sync.WaitGroup (with the runtime's reuse-before-return misuse check)
	wgOf := func(w *World, c *Cell) *wgState {
		s := w.wgs[c]
		if s == nil {
			s = &wgState{}
			w.wgs[c] = s
		}
		return s
	}
	wgAdd := func(w *World, g *G, c *Cell, delta int, fin func(Value)) {
		s := wgOf(w, c)
		op := &syncOp{desc: fmt.Sprintf("WaitGroup.Add(%d)", delta), ready: func() bool { return true }}
		op.exec = func() {
			w.touch(c.id, true)
			s.n += delta
			if s.n < 0 {
				w.goPanic(g, "sync: negative WaitGroup counter", nil)
				return
			}
			if s.n == 0 {
				for _, ww := range s.waiters {
					ww.released = true
				}
				s.waiters = nil
			}
			fin(nil)
		}
		w.syncPoint(g, op, w.cfg.Gran >= 1)
	}
	m["(*sync.WaitGroup).Add"] = func(w *World, g *G, args []Value, fin func(Value)) {
		c := w.recvCell(g, args[0])
		if c == nil {
			return
		}
		wgAdd(w, g, c, int(w.concretize(args[1].(*Term), "WaitGroup delta")), fin)
	}
	m["(*sync.WaitGroup).Done"] = func(w *World, g *G, args []Value, fin func(Value)) {
		c := w.recvCell(g, args[0])
		if c == nil {
			return
		}
		wgAdd(w, g, c, -1, fin)
	}
	m["(*sync.WaitGroup).Wait"] = func(w *World, g *G, args []Value, fin func(Value)) {
		c := w.recvCell(g, args[0])
		if c == nil {
			return
		}
		s := wgOf(w, c)
		op := &syncOp{desc: "WaitGroup.Wait", ready: func() bool { return true }}
		op.exec = func() {
			w.touch(c.id, true)
			if s.n == 0 {
				fin(nil)
				return
			}
			ww := &wgWaiter{g: g}
			s.waiters = append(s.waiters, ww)
			g.pend = &syncOp{desc: "WaitGroup.Wait(parked)", ready: func() bool { return ww.released }, exec: func() {
				w.touch(c.id, true)
				if s.n != 0 {
					w.goPanic(g, "sync: WaitGroup is reused before previous Wait has returned", nil)
					return
				}
				fin(nil)
			}}
		}
		w.syncPoint(g, op, w.cfg.Gran >= 1)
	}

	m["(*sync.Once).Do"] = func(w *World, g *G, args []Value, fin func(Value)) {
		c := w.recvCell(g, args[0])
		if c == nil {
			return
		}
		w.touch(c.id, true)
		if w.onces[c] {
			fin(nil)
			return
		}
		w.onces[c] = true
		w.callValue(g, args[1], nil, func(Value) { fin(nil) })
	}

	// sync.Pool
	m["(*sync.Pool).Get"] = func(w *World, g *G, args []Value, fin func(Value)) {
		c := w.recvCell(g, args[0])
		if c == nil {
			return
		}
		w.touch(c.id, true)
		ps := w.pools[c]
		if ps != nil && len(ps.items) > 0 && w.poolReuse {
			v := ps.items[len(ps.items)-1]
			ps.items = ps.items[:len(ps.items)-1]
			fin(v)
			return
		}
		nf, _ := w.load(c.fields[fieldIndex(c.typ, "New")]).(*Closure)
		if nf == nil {
			fin(Iface{})
			return
		}
		w.callValue(g, nf, nil, fin)
	}
	m["(*sync.Pool).Put"] = func(w *World, g *G, args []Value, fin func(Value)) {
		c := w.recvCell(g, args[0])
		if c == nil {
			return
		}
		if x, ok := args[1].(Iface); ok && x.t == nil {
			fin(nil)
			return
		}
		w.touch(c.id, true)
		if w.poolReuse {
			ps := w.pools[c]
			if ps == nil {
				ps = &poolState{}
				w.pools[c] = ps
			}
			ps.items = append(ps.items, args[1])
		}
		fin(nil)
	}

	// sync.Map
	smap := func(w *World, c *Cell) *MapObj {
		mo := w.smaps[c]
		if mo == nil {
			mo = &MapObj{}
			w.smaps[c] = mo
		}
		return mo
	}
	m["(*sync.Map).Load"] = func(w *World, g *G, args []Value, fin func(Value)) {
		c := w.recvCell(g, args[0])
		if c == nil {
			return
		}
		w.touch(c.id, false)
		mo := smap(w, c)
		if idx := w.mapFind(mo, args[1]); idx >= 0 {
			fin(Tuple{mo.vals[idx], w.tt.True})
			return
		}
		fin(Tuple{Iface{}, w.tt.False})
	}
	m["(*sync.Map).Store"] = func(w *World, g *G, args []Value, fin func(Value)) {
		c := w.recvCell(g, args[0])
		if c == nil {
			return
		}
		w.touch(c.id, true)
		mo := smap(w, c)
		if idx := w.mapFind(mo, args[1]); idx >= 0 {
			mo.vals[idx] = args[2]
		} else {
			mo.keys = append(mo.keys, args[1])
			mo.vals = append(mo.vals, args[2])
		}
		fin(nil)
	}
	m["(*sync.Map).Delete"] = func(w *World, g *G, args []Value, fin func(Value)) {
		c := w.recvCell(g, args[0])
		if c == nil {
			return
		}
		w.touch(c.id, true)
		mo := smap(w, c)
		if idx := w.mapFind(mo, args[1]); idx >= 0 {
			mo.keys = append(append([]Value{}, mo.keys[:idx]...), mo.keys[idx+1:]...)
			mo.vals = append(append([]Value{}, mo.vals[:idx]...), mo.vals[idx+1:]...)
		}
		fin(nil)
	}

	// sync/atomic
	atomicOp := func(kind string) intrinsic {
		return func(w *World, g *G, args []Value, fin func(Value)) {
			p, _ := args[0].(Ptr)
			if p.c == nil {
				w.goPanic(g, "invalid memory address or nil pointer dereference (atomic)", nil)
				return
			}
			op := &syncOp{desc: "atomic." + kind, ready: func() bool { return true }}
			op.exec = func() {
				switch kind {
				case "Load":
					fin(w.load(p.c))
				case "Store":
					w.store(p.c, args[1])
					fin(nil)
				case "Add":
					nv := w.tt.Bin(OpAdd, w.load(p.c).(*Term), args[1].(*Term))
					w.store(p.c, nv)
					fin(nv)
				case "Swap":
					old := w.load(p.c)
					w.store(p.c, args[1])
					fin(old)
				case "CompareAndSwap":
					old := w.load(p.c)
					if w.branch(w.valueEq(old, args[1])) {
						w.store(p.c, args[2])
						fin(w.tt.True)
					} else {
						fin(w.tt.False)
					}
				}
			}
			w.syncPoint(g, op, w.cfg.Gran >= 2)
		}
	}
	for _, ty := range []string{"Int32", "Int64", "Uint32", "Uint64", "Uintptr", "Pointer"} {
		for _, k := range []string{"Load", "Store", "Add", "Swap", "CompareAndSwap"} {
			m["sync/atomic."+k+ty] = atomicOp(k)
		}
	}
}

// ---- time, runtime and small library models ----

func (w *World) timeVal(ns *Term) Struct {
	return Struct{f: []Value{w.tt.BV(0, 64), ns, Ptr{}}}
}

func timeNs(v Value) *Term { return v.(Struct).f[1].(*Term) }

func (w *World) now() *Term {
	w.touch(clockID, true)
	w.nowCount++
	if w.clockStep > 0 {
		return w.tt.BV(uint64(1<<50+w.nowCount*w.clockStep), 64)
	}
	t := w.tt.Sym(fmt.Sprintf("now#%d", w.nowCount), 64)
	if w.lastNow == nil {
		w.assume(w.tt.Cmp(OpUle, w.tt.BV(1<<50, 64), t))
	} else {
		w.assume(w.tt.Cmp(OpUle, w.lastNow, t))
	}
	w.assume(w.tt.Cmp(OpUlt, t, w.tt.BV(1<<62, 64)))
	w.lastNow = t
	w.inputs[fmt.Sprintf("now#%d", w.nowCount)] = t
	return t
}

func (w *World) timerCanFire(t *timerState) bool {
	if !t.armed || len(t.ch.buf) > 0 {
		return false
	}
	if t.periodic && t.fires >= w.timerBudget {
		return false
	}
	if !t.periodic && w.noOneShot {
		return false // the harness models very long time-outs: one-shot timers never fire
	}
	if !t.periodic && w.oneShotMax > 0 && t.dur > w.oneShotMax {
		return false // time-outs longer than the harness's horizon never fire
	}
	for _, g := range w.gs {
		if g.done || g.pend == nil {
			continue
		}
		for _, c := range g.pend.chans {
			if c == t.ch {
				return true
			}
		}
	}
	return false
}

func (w *World) fireTimer(t *timerState) {
	w.tracef("timer %d fires", t.id)
	t.ch.buf = append(t.ch.buf, w.timeVal(w.now()))
	t.fires++
	if !t.periodic {
		t.armed = false
	}
}

func (w *World) newTimer(typName string, periodic bool) Value {
	tp := w.in.Prog.ImportedPackage("time").Type(typName).Type()
	c := w.newCell(tp)
	w.nextID++
	st := types.NewStruct(nil, nil)
	_ = st
	ch := &ChanObj{cap: 1, id: w.nextID}
	ts := &timerState{ch: ch, armed: true, periodic: periodic, id: len(w.timers)}
	ch.timer = ts
	ch.elem = w.in.Prog.ImportedPackage("time").Type("Time").Type()
	w.timers = append(w.timers, ts)
	w.store(c.fields[fieldIndex(tp, "C")], ChanV{ch})
	return Ptr{c}
}

func (w *World) timerOf(g *G, v Value) *timerState {
	c := w.recvCell(g, v)
	if c == nil {
		return nil
	}
	ch := w.load(c.fields[fieldIndex(c.typ, "C")]).(ChanV)
	return ch.c.timer
}

func registerLibIntrinsics(m map[string]intrinsic) {
	m["time.Now"] = func(w *World, g *G, args []Value, fin func(Value)) { fin(w.timeVal(w.now())) }
	m["time.Since"] = func(w *World, g *G, args []Value, fin func(Value)) {
		fin(w.tt.Bin(OpSub, w.now(), timeNs(args[0])))
	}
	m["(time.Time).Add"] = func(w *World, g *G, args []Value, fin func(Value)) {
		fin(w.timeVal(w.tt.Bin(OpAdd, timeNs(args[0]), args[1].(*Term))))
	}
	m["(time.Time).Sub"] = func(w *World, g *G, args []Value, fin func(Value)) {
		fin(w.tt.Bin(OpSub, timeNs(args[0]), timeNs(args[1])))
	}
	m["(time.Time).Before"] = func(w *World, g *G, args []Value, fin func(Value)) {
		fin(w.tt.Cmp(OpSlt, timeNs(args[0]), timeNs(args[1])))
	}
	m["(time.Time).After"] = func(w *World, g *G, args []Value, fin func(Value)) {
		fin(w.tt.Cmp(OpSlt, timeNs(args[1]), timeNs(args[0])))
	}
	m["(time.Time).IsZero"] = func(w *World, g *G, args []Value, fin func(Value)) {
		fin(w.tt.Eq(timeNs(args[0]), w.tt.BV(0, 64)))
	}
	m["time.NewTimer"] = func(w *World, g *G, args []Value, fin func(Value)) {
		v := w.newTimer("Timer", false)
		if d, ok := args[0].(*Term); ok && d.IsConst() {
			w.timers[len(w.timers)-1].dur = sext(d.Val, 64)
		}
		fin(v)
	}
	m["time.NewTicker"] = func(w *World, g *G, args []Value, fin func(Value)) { fin(w.newTimer("Ticker", true)) }
	m["(*time.Timer).Stop"] = func(w *World, g *G, args []Value, fin func(Value)) {
		t := w.timerOf(g, args[0])
		if t == nil {
			return
		}
		w.touch(t.ch.id, true)
		was := t.armed
		t.armed = false
		fin(w.tt.Bool(was))
	}
	m["(*time.Ticker).Stop"] = func(w *World, g *G, args []Value, fin func(Value)) {
		t := w.timerOf(g, args[0])
		if t == nil {
			return
		}
		w.touch(t.ch.id, true)
		t.armed = false
		fin(nil)
	}
	yield := func(w *World, g *G, args []Value, fin func(Value)) {
		op := &syncOp{desc: "yield", free: true, ready: func() bool { return true }, exec: func() { fin(nil) }}
		w.syncPoint(g, op, w.cfg.Gran >= 1)
	}
	m["runtime.Gosched"] = yield
	m["time.Sleep"] = yield
	m["runtime.NumCPU"] = func(w *World, g *G, args []Value, fin func(Value)) { fin(w.intTerm(16)) }
	m["os.Getpid"] = func(w *World, g *G, args []Value, fin func(Value)) { fin(w.intTerm(4242)) }

	m["fmt.Errorf"] = func(w *World, g *G, args []Value, fin func(Value)) {
		ep := w.in.Prog.ImportedPackage("errors")
		et := ep.Type("errorString").Type()
		c := w.newCell(et)
		w.store(c.fields[0], w.strConcat(w.strConst("fmt.Errorf:"), args[0].(Str)))
		fin(Iface{t: types.NewPointer(et), v: Ptr{c}})
	}
	m["strings.Contains"] = func(w *World, g *G, args []Value, fin func(Value)) {
		a, ok1 := w.concreteStr(args[0].(Str))
		b, ok2 := w.concreteStr(args[1].(Str))
		if !ok1 || !ok2 {
			w.abort("UNSUPPORTED strings.Contains on symbolic strings")
		}
		fin(w.tt.Bool(strings.Contains(a, b)))
	}
	m["sort.Strings"] = func(w *World, g *G, args []Value, fin func(Value)) {
		s, _ := args[0].(Slice)
		vals := make([]Str, s.len)
		keys := make([]string, s.len)
		for i := 0; i < s.len; i++ {
			vals[i] = w.arrGet(s.a, s.off+i).(Str)
			k, ok := w.concreteStr(vals[i])
			if !ok {
				w.abort("UNSUPPORTED sort.Strings on symbolic strings")
			}
			keys[i] = k
		}
		idx := make([]int, s.len)
		for i := range idx {
			idx[i] = i
		}
		sort.SliceStable(idx, func(a, b int) bool { return keys[idx[a]] < keys[idx[b]] })
		for i, k := range idx {
			w.arrSet(s.a, s.off+i, vals[k])
		}
		fin(nil)
	}
	m["reflect.DeepEqual"] = func(w *World, g *G, args []Value, fin func(Value)) {
		a, _ := args[0].(Iface)
		b, _ := args[1].(Iface)
		sa, ok1 := a.v.(Slice)
		sb, ok2 := b.v.(Slice)
		if !ok1 || !ok2 || !types.Identical(a.t, b.t) {
			w.abort("UNSUPPORTED reflect.DeepEqual on %v / %v", a.t, b.t)
		}
		if (sa.a == nil) != (sb.a == nil) || sa.len != sb.len {
			fin(w.tt.False)
			return
		}
		r := w.tt.True
		for i := 0; i < sa.len; i++ {
			r = w.tt.And(r, w.valueEq(w.arrGet(sa.a, sa.off+i), w.arrGet(sb.a, sb.off+i)))
		}
		fin(r)
	}
	m["math/rand.Intn"] = func(w *World, g *G, args []Value, fin func(Value)) {
		n := args[0].(*Term)
		r := w.freshInput("rand.Intn", 64, "int")
		w.assume(w.tt.Cmp(OpUlt, r, n))
		fin(r)
	}
	m["context.WithValue"] = func(w *World, g *G, args []Value, fin func(Value)) {
		cp := w.in.Prog.ImportedPackage("context")
		vt := cp.Type("valueCtx").Type()
		c := w.newCell(vt)
		w.store(c.fields[0], args[0])
		w.store(c.fields[1], args[1])
		w.store(c.fields[2], args[2])
		fin(Iface{t: types.NewPointer(vt), v: Ptr{c}})
	}
}
