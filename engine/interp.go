package engine

import (
	"fmt"
	"go/constant"
	"go/token"
	"go/types"
	"os"
	"regexp"
	"sort"
	"strings"

	"golang.org/x/tools/go/ssa"
)

// Config holds the per-run exploration parameters (the stated bounds).
type Config struct {
	Harness     string
	MaxPreempt  int  // preemption bound P
	Gran        int  // 0: switch only at blocking/yield; 1: + lock/chan/go/wg/cond; 2: + atomics/unlock
	PoolReuse   bool // sync.Pool policy: true = LIFO reuse, false = always New
	MapOrder    bool // fork over map iteration order
	TimerBudget int  // max fires per ticker
	MaxSteps    int
	LoopBound   int // unwinding bound for symbolically-decided loop heads
	MaxConcr    int // max distinct values when concretising a symbolic integer
	NoSleepSets bool
	Params      map[string]int
}

// Interp is the immutable program context shared by all workers.
type Interp struct {
	Prog       *ssa.Program
	Pkg        *ssa.Package
	Fset       *token.FileSet
	intrinsics map[string]intrinsic
	initOK     map[string]bool
	stubPkgs   map[string]bool
	Watch      map[string]bool
}

type intrinsic func(w *World, g *G, args []Value, fin func(Value))

// syncOp is a (potentially blocking) synchronisation step of a goroutine.
type syncOp struct {
	ready   func() bool
	exec    func()
	desc    string
	free    bool // a voluntary yield: switching away costs no preemption
	quiesce bool
	chans   []*ChanObj
}

type deferred struct {
	fn   Value
	args []Value
}

// Frame is an activation record.
type Frame struct {
	fn        *ssa.Function
	blk       *ssa.BasicBlock
	prev      *ssa.BasicBlock
	pc        int
	regs      map[ssa.Value]Value
	defers    []*deferred
	onRet     func(Value)
	symVisits map[*ssa.BasicBlock]int
	unwinding bool
	pan       *panicInfo
	rec       *recoverCtx
}

type panicInfo struct {
	val   Value
	msg   string
	site  string
	stack []string
}

// G is a goroutine.
type G struct {
	id       int
	name     string
	frames   []*Frame
	pend     *syncOp
	done     bool
	daemon   bool
	panic    *panicInfo
	created  string
	wgParked bool
}

// Violation is a property violation found on one path.
type Violation struct {
	Kind      string // assert | panic | blocked | unsupported
	Label     string
	Msg       string
	Site      string
	Sites     []string
	Tags      []string
	Model     map[string]uint64
	Inputs    map[string]interface{}
	Decisions []Decision
	Trace     []string
	Sig       string
	Stack     []string
	Light     bool
	Harness   string
	Kinds     map[string]string
}

// PathEnd describes how a path terminated.
type PathEnd int

const (
	EndOK PathEnd = iota
	EndAssumeFalse
	EndAbort
	EndCrash
)

var traceCalls = os.Getenv("SSASYM_TRACE") != ""

type abortPath struct{ reason string }
type endPath struct{}

func (in *Interp) fnName(fn *ssa.Function) string { return fn.String() }

// ---- path exploration world ----

// World is the mutable state of one path execution.
type World struct {
	in     *Interp
	cfg    *Config
	tt     *TermTable
	sol    *Solver
	ex     *Explorer
	pc     []*Term
	zero8  *Term
	nextID int

	globals  map[*ssa.Global]*Cell
	strCache map[string]*Arr
	gs       []*G
	cur      *G
	steps    int
	preempts int

	mutexes  map[*Cell]*mutexState
	conds    map[*Cell]*condState
	wgs      map[*Cell]*wgState
	onces    map[*Cell]bool
	pools    map[*Cell]*poolState
	smaps    map[*Cell]*MapObj
	timers   []*timerState
	funcsReg map[*Cell]*MapObj
	lastNow  *Term
	nowCount int

	symCount       map[string]int
	inputs         map[string]*Term
	inputKind      map[string]string
	atEnd          []Value
	reached        map[string]bool
	tags           []string
	trace          []string
	watchLog       []watchEvent
	fnSeen         map[string]bool
	violations     []*Violation
	asserted       map[string]int
	end            PathEnd
	endMsg         string
	ended          bool
	initDone       map[*ssa.Package]bool
	inAtEnd        bool
	stats          *Stats
	poolReuse      bool
	mapOrder       bool
	timerBudget    int
	sigSeen        map[string]int
	timersAnywhere bool
	noOneShot      bool
	oneShotMax     int64
	clockStep      int
	fp             *footprint
	sleep          []sleepEntry
	stepDec        int
	stepOpt        int
	stepBirth      int
}

type watchEvent struct {
	callee string
	caller string
	recv   *Cell
}

func (w *World) tracef(format string, a ...interface{}) {
	if len(w.trace) < 400 || traceCalls {
		w.trace = append(w.trace, fmt.Sprintf(format, a...))
	}
}

func (w *World) abort(format string, a ...interface{}) {
	where := ""
	if w.cur != nil && len(w.cur.frames) > 0 {
		fr := w.cur.frames[len(w.cur.frames)-1]
		where = " [in " + fr.fn.String()
		if fr.blk != nil && fr.pc < len(fr.blk.Instrs) {
			where += " @ " + w.in.Fset.Position(fr.blk.Instrs[fr.pc].Pos()).String()
		}
		where += "]"
	}
	panic(abortPath{fmt.Sprintf(format, a...) + where})
}

// ---- goroutines and frames ----

func (w *World) newG(name string) *G {
	g := &G{id: len(w.gs), name: name}
	w.gs = append(w.gs, g)
	return g
}

func (w *World) pushFrame(g *G, fn *ssa.Function, args []Value, fv []Value, onRet func(Value)) {
	if fn.Blocks == nil {
		w.abort("UNSUPPORTED call to function without body: %s", fn.String())
	}
	name := fn.String()
	if !w.fnSeen[name] {
		w.fnSeen[name] = true
	}
	fr := &Frame{fn: fn, blk: fn.Blocks[0], regs: make(map[ssa.Value]Value, 16), onRet: onRet}
	if len(args) != len(fn.Params) {
		w.abort("arity mismatch calling %s: %d args for %d params", name, len(args), len(fn.Params))
	}
	for i, p := range fn.Params {
		fr.regs[p] = args[i]
	}
	for i, f := range fn.FreeVars {
		fr.regs[f] = fv[i]
	}
	g.frames = append(g.frames, fr)
	if len(g.frames) > 200 {
		w.abort("call stack too deep in %s", name)
	}
}

// callValue calls a function value with args; onRet receives the result.
func (w *World) callValue(g *G, f Value, args []Value, onRet func(Value)) {
	c, _ := f.(*Closure)
	if c == nil {
		w.goPanic(g, "invalid memory address or nil pointer dereference (call of nil func)", nil)
		return
	}
	if c.fn == nil {
		h := w.in.intrinsics[c.intr]
		if h == nil {
			w.abort("UNSUPPORTED builtin closure %s", c.intr)
		}
		h(w, g, append(append([]Value{}, c.bound...), args...), onRet)
		return
	}
	w.callFn(g, c.fn, args, c.fv, onRet)
}

func (w *World) callFn(g *G, fn *ssa.Function, args []Value, fv []Value, onRet func(Value)) {
	name := fn.String()
	if w.in.Watch[name] {
		caller := "?"
		if len(g.frames) > 0 {
			caller = w.siteOf(g.frames[len(g.frames)-1])
		}
		var rc *Cell
		if len(args) > 0 {
			if p, ok := args[0].(Ptr); ok {
				rc = p.c
			}
		}
		w.watchLog = append(w.watchLog, watchEvent{name, caller, rc})
	}
	if traceCalls && !strings.Contains(name, "rpc.v") {
		w.tracef("g%d %*scall %s", g.id, len(g.frames), "", name)
	}
	if h, ok := w.in.intrinsics[name]; ok {
		h(w, g, args, onRet)
		return
	}
	if fn.Pkg != nil && w.in.stubPkgs[fn.Pkg.Pkg.Path()] {
		onRet(w.zeroResult(fn.Signature))
		return
	}
	if fn.Blocks == nil {
		w.abort("UNSUPPORTED call to external function %s", name)
	}
	if fn.Name() == "init" && fn.Pkg != nil && fn.Signature.Recv() == nil && fn.Parent() == nil {
		if !w.in.initOK[fn.Pkg.Pkg.Path()] || w.initDone[fn.Pkg] {
			onRet(nil)
			return
		}
		w.initDone[fn.Pkg] = true
	}
	w.pushFrame(g, fn, args, fv, onRet)
}

func (w *World) zeroResult(sig *types.Signature) Value {
	r := sig.Results()
	switch r.Len() {
	case 0:
		return nil
	case 1:
		return w.zero(r.At(0).Type())
	}
	return w.zero(r)
}

// siteOf names the innermost non-harness function of the given frame (function name + block comment).
func (w *World) siteOf(fr *Frame) string {
	s := fr.fn.String()
	if fr.blk != nil && fr.blk.Comment != "" {
		s += ":" + fr.blk.Comment
	}
	return s
}

// goPanic starts Go-level panicking in goroutine g.
func (w *World) goPanic(g *G, msg string, val Value) {
	site := ""
	for i := len(g.frames) - 1; i >= 0; i-- {
		site = w.siteOf(g.frames[i])
		break
	}
	stack := []string{}
	for i := len(g.frames) - 1; i >= 0 && len(stack) < 8; i-- {
		stack = append(stack, g.frames[i].fn.String())
	}
	full := []string{}
	for i := len(g.frames) - 1; i >= 0; i-- {
		full = append(full, g.frames[i].fn.String())
	}
	g.panic = &panicInfo{val: val, msg: msg, site: site + " <- " + strings.Join(stack, " <- "), stack: full}
	w.tracef("g%d PANIC %s at %s", g.id, msg, site)
}

// ---- the main loop ----

// run executes goroutine g until it reaches a scheduling point, finishes, or the path ends.
func (w *World) run(g *G) {
	for !g.done && g.pend == nil && !w.ended {
		w.steps++
		if w.steps > w.cfg.MaxSteps {
			w.abort("step limit %d exceeded", w.cfg.MaxSteps)
		}
		if g.panic != nil {
			if len(g.frames) == 0 {
				w.crash(g, g.panic)
				continue
			}
			top := g.frames[len(g.frames)-1]
			top.unwinding, top.pan = true, g.panic
			g.panic = nil
		}
		fr := g.frames[len(g.frames)-1]
		if fr.unwinding {
			w.unwind(g, fr)
			continue
		}
		instr := fr.blk.Instrs[fr.pc]
		w.exec(g, fr, instr)
	}
}

// unwind performs one step of panic propagation in frame fr (the top frame): run its deferred calls
// one at a time; when none is left either resume at the Recover block (the panic was recovered) or
// pop the frame and continue in the caller.
func (w *World) unwind(g *G, fr *Frame) {
	if n := len(fr.defers); n > 0 {
		d := fr.defers[n-1]
		fr.defers = fr.defers[:n-1]
		before := len(g.frames)
		w.callValue(g, d.fn, d.args, func(Value) {})
		if len(g.frames) > before {
			g.frames[len(g.frames)-1].rec = &recoverCtx{fr: fr}
		}
		return
	}
	fr.unwinding = false
	if fr.pan == nil {
		// recovered: resume at the Recover block of the function, or return zero values
		if fr.fn.Recover != nil {
			fr.prev, fr.blk, fr.pc = fr.blk, fr.fn.Recover, 0
			return
		}
		g.frames = g.frames[:len(g.frames)-1]
		if len(g.frames) == 0 {
			g.done = true
		}
		if fr.onRet != nil {
			fr.onRet(w.zeroResult(fr.fn.Signature))
		}
		return
	}
	p := fr.pan
	fr.pan = nil
	g.frames = g.frames[:len(g.frames)-1]
	if len(g.frames) == 0 {
		w.crash(g, p)
		return
	}
	top := g.frames[len(g.frames)-1]
	top.unwinding, top.pan = true, p
}

type recoverCtx struct {
	fr *Frame
}

func (w *World) crash(g *G, p *panicInfo) {
	g.panic = nil
	g.done = true
	v := &Violation{Kind: "panic", Label: "panic", Msg: p.msg, Site: p.site, Stack: p.stack}
	w.addViolation(v)
	w.end = EndCrash
	w.endMsg = p.msg
	w.ended = true
}

// Signature identifies the failing assertion/panic together with its culprit sites; it is what
// known_findings.json is keyed by.
func (v *Violation) Signature() string {
	var tags []string
	for _, t := range v.Tags {
		if strings.HasPrefix(t, "sig:") {
			tags = append(tags, t)
		}
	}
	s := v.Kind + "|" + v.Label
	if v.Kind == "panic" {
		s += "|" + normMsg(v.Msg) + "|" + strings.Join(culpritStack(v.Stack), " <- ")
	}
	if len(v.Sites) > 0 {
		s += "|sites=" + strings.Join(v.Sites, ",")
	}
	if len(tags) > 0 {
		s += "|" + strings.Join(tags, ",")
	}
	return s
}

var digitsRe = regexp.MustCompile(`[0-9]+|symbolic`)

func normMsg(m string) string { return digitsRe.ReplaceAllString(m, "N") }

// culpritStack keeps the frames from the panic site up to and including the first function of the
// code under test (package rpc, not a harness function), without positions.
func culpritStack(stack []string) []string {
	var out []string
	for _, f := range stack {
		if strings.Contains(f, "rpc.zz") || strings.Contains(f, "rpc.v") {
			break
		}
		out = append(out, strings.ReplaceAll(f, "github.com/hslam/", ""))
		if strings.Contains(f, "github.com/hslam/rpc") {
			break
		}
	}
	return out
}

func (w *World) addViolation(v *Violation) {
	v.Tags = append([]string{}, w.tags...)
	v.Sig = v.Signature()
	if w.sigSeen != nil {
		w.sigSeen[v.Sig]++
		if w.sigSeen[v.Sig] > 2 {
			w.violations = append(w.violations, &Violation{Kind: v.Kind, Label: v.Label, Sig: v.Sig, Light: true})
			return
		}
	}
	v.Trace = append([]string{}, w.trace...)
	v.Decisions = w.ex.snapshot()
	if v.Model == nil {
		if r, m := w.sol.Check(w.pc, nil, true); r == Sat {
			v.Model = m
		}
	}
	v.Inputs = w.inputValues(v.Model)
	v.Kinds = map[string]string{}
	for k, x := range w.inputKind {
		v.Kinds[k] = x
	}
	v.Harness = w.cfg.Harness
	w.violations = append(w.violations, v)
}

func (w *World) inputValues(model map[string]uint64) map[string]interface{} {
	out := map[string]interface{}{}
	memo := map[*Term]uint64{}
	if model == nil {
		model = map[string]uint64{}
	}
	for name, t := range w.inputs {
		out[name] = Eval(t, model, memo)
	}
	return out
}

// schedule runs the whole program (all goroutines) for this path.
func (w *World) schedule(g0 *G) {
	cur := g0
	por := w.cfg.MaxPreempt == 0 && !w.cfg.NoSleepSets
	w.fp = &footprint{acc: map[int]uint8{}}
	w.stepDec, w.stepOpt = -1, -1
	for !w.ended {
		if cur != nil && !cur.done && cur.pend == nil {
			w.cur = cur
			w.run(cur)
			if w.ended {
				return
			}
		}
		if por {
			w.endStep()
		}
		type option struct {
			g *G
			t *timerState
		}
		var opts []option
		curReady := cur != nil && !cur.done && cur.pend != nil && cur.pend.ready()
		if curReady {
			opts = append(opts, option{g: cur})
		}
		canSwitch := !curReady || w.preempts < w.cfg.MaxPreempt || cur.pend.free
		if canSwitch {
			for _, g := range w.gs {
				if g != cur && !g.done && g.pend != nil && g.pend.ready() {
					opts = append(opts, option{g: g})
				}
			}
			busy := false
			if !w.timersAnywhere {
				for _, o := range opts {
					if o.g != nil && !o.g.pend.quiesce {
						busy = true
					}
				}
			}
			if !busy {
				for _, t := range w.timers {
					if w.timerCanFire(t) {
						opts = append(opts, option{t: t})
					}
				}
			}
		}
		if len(opts) == 0 {
			return // terminal state
		}
		ident := func(o option) int {
			if o.t != nil {
				return -1 - o.t.id
			}
			return o.g.id
		}
		if por && len(w.sleep) > 0 {
			var awake []option
			for _, o := range opts {
				asleep := false
				for _, se := range w.sleep {
					if se.ident == ident(o) {
						asleep = true
						break
					}
				}
				if !asleep {
					awake = append(awake, o)
				}
			}
			if len(awake) == 0 {
				// every enabled step is covered by an interleaving explored earlier
				w.end = EndAssumeFalse
				w.endMsg = "sleep-set pruned"
				w.stats.SleepPruned++
				w.ended = true
				return
			}
			opts = awake
		}
		k := 0
		if len(opts) > 1 {
			k = w.ex.choose("sched", len(opts))
			w.stats.SchedPoints++
			if por {
				d := &w.ex.dec[w.ex.pos-1]
				if d.ident == nil {
					d.ident = make([]int, len(opts))
					for i, o := range opts {
						d.ident[i] = ident(o)
					}
					d.fps = make([]*footprint, len(opts))
					d.done = make([]bool, len(opts))
					d.birth = w.nextID
				}
				// earlier siblings whose subtrees are complete go to sleep
				for j := 0; j < k; j++ {
					if d.done[j] && d.fps[j] != nil {
						w.sleep = append(w.sleep, sleepEntry{ident: d.ident[j], fp: d.fps[j]})
					}
				}
				w.stepDec, w.stepOpt, w.stepBirth = w.ex.pos-1, k, d.birth
			}
		}
		o := opts[k]
		if curReady && k != 0 && !cur.pend.free {
			w.preempts++
		}
		if o.t != nil {
			w.touch(o.t.ch.id, true)
			w.touch(clockID, true)
			w.fireTimer(o.t)
			continue
		}
		g := o.g
		if g != cur {
			w.tracef("switch -> g%d(%s) %s", g.id, g.name, g.pend.desc)
		}
		op := g.pend
		g.pend = nil
		w.cur = g
		if op.quiesce {
			w.fp.all = true
		}
		op.exec()
		cur = g
	}
}

const clockID = -7

type sleepEntry struct {
	ident int
	fp    *footprint
}

// touch records an access of the current step to the heap object with allocation id.
func (w *World) touch(id int, write bool) {
	if w.fp == nil {
		return
	}
	if write {
		w.fp.acc[id] |= 2
	} else {
		w.fp.acc[id] |= 1
	}
}

// endStep closes the current macro step: its footprint is credited to the scheduling decision that
// started it (restricted to objects that existed at that decision) and sleeping steps that conflict
// with it are woken.
func (w *World) endStep() {
	f := w.fp
	if len(f.acc) == 0 && !f.all {
		return
	}
	if w.stepDec >= 0 && w.stepDec < len(w.ex.dec) {
		d := &w.ex.dec[w.stepDec]
		if d.fps != nil {
			t := d.fps[w.stepOpt]
			if t == nil {
				t = &footprint{acc: map[int]uint8{}}
				d.fps[w.stepOpt] = t
			}
			if f.all {
				t.all = true
			}
			for id, m := range f.acc {
				if id < w.stepBirth {
					t.acc[id] |= m
				}
			}
		}
	}
	w.stepDec, w.stepOpt = -1, -1
	if len(w.sleep) > 0 {
		keep := w.sleep[:0]
		for _, se := range w.sleep {
			if !se.fp.conflicts(f) {
				keep = append(keep, se)
			}
		}
		w.sleep = keep
	}
	w.fp = &footprint{acc: map[int]uint8{}}
}

// syncPoint registers op as the next step of g. If sched is false and the op is ready it is
// executed inline (no scheduling point at the current granularity).
func (w *World) syncPoint(g *G, op *syncOp, sched bool) {
	if w.inAtEnd {
		if !op.ready() {
			w.abort("vAtEnd callback blocked at %s", op.desc)
		}
		op.exec()
		return
	}
	if !sched && op.ready() {
		op.exec()
		return
	}
	g.pend = op
}

// ---- branching on symbolic conditions ----

func (w *World) assume(c *Term) {
	if c.IsTrue() {
		return
	}
	w.pc = append(w.pc, c)
}

// feasible asks the solver whether pc ∧ c is satisfiable.
func (w *World) feasible(c *Term) bool {
	if c.IsTrue() {
		return true
	}
	if c.IsFalse() {
		return false
	}
	w.stats.FeasQueries++
	r, _ := w.sol.Check(w.pc, c, false)
	if r == Unknown {
		w.stats.Inconclusive++
		w.abort("INCONCLUSIVE solver answer on feasibility query (%s)", w.sol.LastError)
	}
	return r == Sat
}

// branch decides a boolean term, forking the path if both outcomes are feasible.
func (w *World) branch(c *Term) bool {
	if c.IsConst() {
		return c.Val == 1
	}
	if d, ok := w.ex.replay("br"); ok {
		v := d.opts[d.idx] == 1
		if !d.forced {
			if v {
				w.assume(c)
			} else {
				w.assume(w.tt.Not(c))
			}
		}
		return v
	}
	ft := w.feasible(c)
	ff := w.feasible(w.tt.Not(c))
	switch {
	case ft && ff:
		w.ex.record(Decision{kind: "br", opts: []int64{1, 0}})
		w.assume(c)
		w.stats.Forks++
		return true
	case ft:
		w.ex.record(Decision{kind: "br", opts: []int64{1}, forced: true})
		return true
	case ff:
		w.ex.record(Decision{kind: "br", opts: []int64{0}, forced: true})
		return false
	}
	// path condition itself infeasible (should not happen)
	w.end = EndAssumeFalse
	w.ended = true
	panic(endPath{})
}

// concretize turns an integer term into a concrete value, forking over its feasible values.
func (w *World) concretize(t *Term, what string) int64 {
	if t.IsConst() {
		return sext(t.Val, t.W)
	}
	if d, ok := w.ex.replay("cz"); ok {
		v := d.opts[d.idx]
		w.assume(w.tt.Eq(t, w.tt.BV(uint64(v), t.W)))
		return v
	}
	var vals []int64
	block := w.tt.True
	for len(vals) <= w.cfg.MaxConcr {
		w.stats.FeasQueries++
		r, m := w.sol.Check(w.pc, w.andAll(block, nil), true)
		_ = m
		if r == Unknown {
			w.stats.Inconclusive++
			w.abort("INCONCLUSIVE solver answer while concretising %s", what)
		}
		if r == Unsat {
			break
		}
		memo := map[*Term]uint64{}
		v := Eval(t, m, memo)
		vals = append(vals, sext(v, t.W))
		block = w.tt.And(block, w.tt.Not(w.tt.Eq(t, w.tt.BV(v, t.W))))
	}
	if len(vals) == 0 {
		w.end = EndAssumeFalse
		w.ended = true
		panic(endPath{})
	}
	if len(vals) > w.cfg.MaxConcr {
		w.abort("UNWIND-INCOMPLETE: more than %d feasible values for %s", w.cfg.MaxConcr, what)
	}
	sort.Slice(vals, func(i, j int) bool { return vals[i] < vals[j] })
	w.ex.record(Decision{kind: "cz", opts: vals})
	if len(vals) > 1 {
		w.stats.Forks++
	}
	w.assume(w.tt.Eq(t, w.tt.BV(uint64(vals[0]), t.W)))
	return vals[0]
}

func (w *World) andAll(a *Term, b *Term) *Term {
	if b == nil {
		return a
	}
	return w.tt.And(a, b)
}

// ---- operand evaluation ----

func (w *World) constVal(c *ssa.Const) Value {
	t := c.Type()
	if c.Value == nil {
		return w.zero(t)
	}
	switch u := t.Underlying().(type) {
	case *types.Basic:
		switch {
		case u.Info()&types.IsBoolean != 0:
			return w.tt.Bool(constant.BoolVal(c.Value))
		case u.Info()&types.IsString != 0:
			return w.strConst(constant.StringVal(c.Value))
		case u.Info()&types.IsInteger != 0:
			bw, signed, _ := basicWidth(u)
			if signed {
				return w.tt.BV(uint64(c.Int64()), bw)
			}
			return w.tt.BV(c.Uint64(), bw)
		case u.Info()&types.IsFloat != 0:
			return w.tt.F64(c.Float64())
		}
	}
	w.abort("UNSUPPORTED constant %v of type %v", c, t)
	return nil
}

func (w *World) global(gl *ssa.Global) *Cell {
	c, ok := w.globals[gl]
	if !ok {
		c = w.newCell(gl.Type().(*types.Pointer).Elem())
		w.globals[gl] = c
	}
	return c
}

func (w *World) get(fr *Frame, v ssa.Value) Value {
	switch x := v.(type) {
	case *ssa.Const:
		return w.constVal(x)
	case *ssa.Global:
		return Ptr{w.global(x)}
	case *ssa.Function:
		return &Closure{fn: x}
	case *ssa.Builtin:
		return &Closure{intr: "builtin:" + x.Name()}
	}
	r, ok := fr.regs[v]
	if !ok {
		w.abort("internal: unset register %s in %s", v.Name(), fr.fn.String())
	}
	return r
}

func (w *World) truth(v Value) *Term { return v.(*Term) }
