package engine

import "golang.org/x/tools/go/ssa"

// Heap snapshot/clone: package initialisers are deterministic and decision-free, so each worker
// runs them once and every path starts from a deep copy of the post-init heap.

type cloner struct {
	cells map[*Cell]*Cell
	arrs  map[*Arr]*Arr
	maps  map[*MapObj]*MapObj
	chans map[*ChanObj]*ChanObj
	clos  map[*Closure]*Closure
}

func (cl *cloner) cell(c *Cell) *Cell {
	if c == nil {
		return nil
	}
	if n, ok := cl.cells[c]; ok {
		return n
	}
	n := &Cell{id: c.id, typ: c.typ}
	cl.cells[c] = n
	if c.fields != nil {
		n.fields = make([]*Cell, len(c.fields))
		for i, f := range c.fields {
			n.fields[i] = cl.cell(f)
		}
	}
	n.v = cl.value(c.v)
	return n
}

func (cl *cloner) arr(a *Arr) *Arr {
	if a == nil {
		return nil
	}
	if n, ok := cl.arrs[a]; ok {
		return n
	}
	n := &Arr{isBytes: a.isBytes, n: a.n, base: a.base, id: a.id, elem: a.elem}
	cl.arrs[a] = n
	if a.cells != nil {
		n.cells = make([]*Cell, len(a.cells))
		for i, c := range a.cells {
			n.cells[i] = cl.cell(c)
		}
	}
	if a.dense != nil {
		n.dense = append([]*Term(nil), a.dense...)
	}
	if a.sparse != nil {
		n.sparse = make(map[int]*Term, len(a.sparse))
		for k, v := range a.sparse {
			n.sparse[k] = v
		}
	}
	return n
}

func (cl *cloner) mapObj(m *MapObj) *MapObj {
	if m == nil {
		return nil
	}
	if n, ok := cl.maps[m]; ok {
		return n
	}
	n := &MapObj{id: m.id, kt: m.kt, vt: m.vt}
	cl.maps[m] = n
	for i := range m.keys {
		n.keys = append(n.keys, cl.value(m.keys[i]))
		n.vals = append(n.vals, cl.value(m.vals[i]))
	}
	return n
}

func (cl *cloner) value(v Value) Value {
	switch x := v.(type) {
	case nil:
		return nil
	case *Term:
		return x
	case Ptr:
		return Ptr{cl.cell(x.c)}
	case BytePtr:
		return BytePtr{cl.arr(x.a), x.i}
	case Slice:
		return Slice{cl.arr(x.a), x.off, x.len, x.cap}
	case Str:
		return Str{cl.arr(x.a), x.off, x.len}
	case Iface:
		return Iface{x.t, cl.value(x.v)}
	case *Closure:
		if x == nil {
			return x
		}
		if n, ok := cl.clos[x]; ok {
			return n
		}
		n := &Closure{fn: x.fn, intr: x.intr}
		cl.clos[x] = n
		for _, f := range x.fv {
			n.fv = append(n.fv, cl.value(f))
		}
		for _, b := range x.bound {
			n.bound = append(n.bound, cl.value(b))
		}
		return n
	case MapV:
		return MapV{cl.mapObj(x.m)}
	case ChanV:
		if x.c == nil {
			return x
		}
		if n, ok := cl.chans[x.c]; ok {
			return ChanV{n}
		}
		n := &ChanObj{cap: x.c.cap, closed: x.c.closed, id: x.c.id, elem: x.c.elem}
		cl.chans[x.c] = n
		for _, b := range x.c.buf {
			n.buf = append(n.buf, cl.value(b))
		}
		if x.c.timer != nil {
			panic(abortPath{"snapshot: timer created during package initialisation"})
		}
		return ChanV{n}
	case Struct:
		n := Struct{f: make([]Value, len(x.f))}
		for i, f := range x.f {
			n.f[i] = cl.value(f)
		}
		return n
	case ArrayV:
		n := ArrayV{e: make([]Value, len(x.e))}
		for i, f := range x.e {
			n.e[i] = cl.value(f)
		}
		return n
	case Tuple:
		n := make(Tuple, len(x))
		for i, f := range x {
			n[i] = cl.value(f)
		}
		return n
	case *Opaque:
		return x
	}
	panic(abortPath{"snapshot: unsupported value kind in post-init heap"})
}

// cloneFrom initialises w's heap as a deep copy of base's.
func (w *World) cloneFrom(base *World) {
	cl := &cloner{cells: map[*Cell]*Cell{}, arrs: map[*Arr]*Arr{}, maps: map[*MapObj]*MapObj{}, chans: map[*ChanObj]*ChanObj{}, clos: map[*Closure]*Closure{}}
	w.nextID = base.nextID
	for g, c := range base.globals {
		w.globals[g] = cl.cell(c)
	}
	for s, a := range base.strCache {
		w.strCache[s] = cl.arr(a)
	}
	for c, m := range base.mutexes {
		cp := *m
		w.mutexes[cl.cell(c)] = &cp
	}
	for c, d := range base.onces {
		w.onces[cl.cell(c)] = d
	}
	for c, p := range base.pools {
		np := &poolState{}
		for _, it := range p.items {
			np.items = append(np.items, cl.value(it))
		}
		w.pools[cl.cell(c)] = np
	}
	for c, m := range base.smaps {
		w.smaps[cl.cell(c)] = cl.mapObj(m)
	}
	for c, s := range base.wgs {
		if s.n != 0 || len(s.waiters) != 0 {
			panic(abortPath{"snapshot: busy WaitGroup after package initialisation"})
		}
		w.wgs[cl.cell(c)] = &wgState{}
	}
	if len(base.funcsReg) != 0 || len(base.timers) != 0 || len(base.conds) != 0 {
		panic(abortPath{"snapshot: registry/timer/cond state after package initialisation"})
	}
	for p, d := range base.initDone {
		w.initDone[p] = d
	}
	for f := range base.fnSeen {
		w.fnSeen[f] = true
	}
}

var _ *ssa.Package
