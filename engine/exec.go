package engine

import (
	"fmt"
	"go/token"
	"go/types"

	"golang.org/x/tools/go/ssa"
)

func (w *World) setReg(fr *Frame, v ssa.Value, val Value) { fr.regs[v] = val }

// exec executes one SSA instruction of goroutine g.
func (w *World) exec(g *G, fr *Frame, instr ssa.Instruction) {
	switch i := instr.(type) {
	case *ssa.DebugRef:
		fr.pc++
	case *ssa.Alloc:
		c := w.newCell(i.Type().(*types.Pointer).Elem())
		w.setReg(fr, i, Ptr{c})
		fr.pc++
	case *ssa.Phi:
		// evaluate all phis of the block simultaneously
		blk := fr.blk
		idx := -1
		for k, p := range blk.Preds {
			if p == fr.prev {
				idx = k
				break
			}
		}
		if idx < 0 {
			w.abort("internal: phi without matching predecessor in %s", fr.fn)
		}
		var vals []Value
		var phis []*ssa.Phi
		for _, in := range blk.Instrs[fr.pc:] {
			p, ok := in.(*ssa.Phi)
			if !ok {
				break
			}
			phis = append(phis, p)
			vals = append(vals, w.get(fr, p.Edges[idx]))
		}
		for k, p := range phis {
			w.setReg(fr, p, vals[k])
		}
		fr.pc += len(phis)
	case *ssa.Jump:
		w.jump(fr, fr.blk.Succs[0])
	case *ssa.If:
		c := w.truth(w.get(fr, i.Cond))
		var taken bool
		if c.IsConst() {
			taken = c.Val == 1
		} else {
			if fr.symVisits == nil {
				fr.symVisits = map[*ssa.BasicBlock]int{}
			}
			fr.symVisits[fr.blk]++
			if fr.symVisits[fr.blk] > w.cfg.LoopBound {
				w.abort("UNWIND-INCOMPLETE: symbolic branch at %s visited more than %d times", w.siteOf(fr), w.cfg.LoopBound)
			}
			taken = w.branch(c)
		}
		if taken {
			w.jump(fr, fr.blk.Succs[0])
		} else {
			w.jump(fr, fr.blk.Succs[1])
		}
	case *ssa.Return:
		var res Value
		switch len(i.Results) {
		case 0:
		case 1:
			res = w.get(fr, i.Results[0])
		default:
			t := make(Tuple, len(i.Results))
			for k, r := range i.Results {
				t[k] = w.get(fr, r)
			}
			res = t
		}
		w.ret(g, fr, res)
	case *ssa.RunDefers:
		if n := len(fr.defers); n > 0 {
			d := fr.defers[n-1]
			fr.defers = fr.defers[:n-1]
			w.callValue(g, d.fn, d.args, func(Value) {})
			return
		}
		fr.pc++
	case *ssa.Panic:
		v := w.get(fr, i.X)
		w.goPanic(g, "panic: "+w.panicText(v), v)
	case *ssa.Store:
		addr := w.get(fr, i.Addr)
		val := w.get(fr, i.Val)
		if !w.storeTo(g, addr, val) {
			return
		}
		fr.pc++
	case *ssa.UnOp:
		w.execUnOp(g, fr, i)
	case *ssa.BinOp:
		x, y := w.get(fr, i.X), w.get(fr, i.Y)
		r, ok := w.binop(g, i.Op, x, y, i.X.Type(), i.Y.Type())
		if !ok {
			return
		}
		w.setReg(fr, i, r)
		fr.pc++
	case *ssa.FieldAddr:
		p, _ := w.get(fr, i.X).(Ptr)
		if p.c == nil {
			w.goPanic(g, "invalid memory address or nil pointer dereference", nil)
			return
		}
		if i.Field >= len(p.c.fields) {
			w.abort("internal: FieldAddr %d on cell of %v with %d fields (%s)", i.Field, p.c.typ, len(p.c.fields), fr.fn)
		}
		w.setReg(fr, i, Ptr{p.c.fields[i.Field]})
		fr.pc++
	case *ssa.Field:
		s := w.get(fr, i.X).(Struct)
		w.setReg(fr, i, s.f[i.Field])
		fr.pc++
	case *ssa.IndexAddr:
		w.execIndexAddr(g, fr, i)
	case *ssa.Index:
		x := w.get(fr, i.X)
		idx := w.get(fr, i.Index).(*Term)
		switch a := x.(type) {
		case ArrayV:
			k, ok := w.checkIndex(g, idx, len(a.e), i.Index.Type())
			if !ok {
				return
			}
			w.setReg(fr, i, a.e[k])
		case Str:
			k, ok := w.checkIndex(g, idx, a.len, i.Index.Type())
			if !ok {
				return
			}
			w.setReg(fr, i, a.a.get(w, a.off+k))
		default:
			w.abort("UNSUPPORTED Index on %T", x)
		}
		fr.pc++
	case *ssa.Slice:
		w.execSlice(g, fr, i)
	case *ssa.MakeSlice:
		n := int(w.concretize(w.get(fr, i.Len).(*Term), "make len"))
		c := int(w.concretize(w.get(fr, i.Cap).(*Term), "make cap"))
		if n < 0 || c < n {
			w.goPanic(g, "makeslice: len out of range", nil)
			return
		}
		if c > 1<<26 {
			w.abort("make([]T, %d) exceeds engine allocation bound", c)
		}
		a := w.newArr(c, i.Type().Underlying().(*types.Slice).Elem())
		w.setReg(fr, i, Slice{a, 0, n, c})
		fr.pc++
	case *ssa.MakeMap:
		mt := i.Type().Underlying().(*types.Map)
		w.nextID++
		w.setReg(fr, i, MapV{&MapObj{id: w.nextID, kt: mt.Key(), vt: mt.Elem()}})
		fr.pc++
	case *ssa.MakeChan:
		c := int(w.concretize(w.get(fr, i.Size).(*Term), "chan cap"))
		w.nextID++
		w.setReg(fr, i, ChanV{&ChanObj{cap: c, id: w.nextID, elem: i.Type().Underlying().(*types.Chan).Elem()}})
		fr.pc++
	case *ssa.MakeClosure:
		fv := make([]Value, len(i.Bindings))
		for k, b := range i.Bindings {
			fv[k] = w.get(fr, b)
		}
		w.setReg(fr, i, &Closure{fn: i.Fn.(*ssa.Function), fv: fv})
		fr.pc++
	case *ssa.MakeInterface:
		w.setReg(fr, i, Iface{t: i.X.Type(), v: w.get(fr, i.X)})
		fr.pc++
	case *ssa.ChangeInterface:
		w.setReg(fr, i, w.get(fr, i.X))
		fr.pc++
	case *ssa.ChangeType:
		w.setReg(fr, i, w.get(fr, i.X))
		fr.pc++
	case *ssa.Convert:
		v, ok := w.convert(g, w.get(fr, i.X), i.X.Type(), i.Type())
		if !ok {
			return
		}
		w.setReg(fr, i, v)
		fr.pc++
	case *ssa.TypeAssert:
		w.execTypeAssert(g, fr, i)
	case *ssa.Extract:
		t := w.get(fr, i.Tuple).(Tuple)
		w.setReg(fr, i, t[i.Index])
		fr.pc++
	case *ssa.Lookup:
		w.execLookup(g, fr, i)
	case *ssa.MapUpdate:
		m, _ := w.get(fr, i.Map).(MapV)
		if m.m == nil {
			w.goPanic(g, "assignment to entry in nil map", nil)
			return
		}
		k := w.get(fr, i.Key)
		v := w.get(fr, i.Value)
		w.touch(m.m.id, true)
		if idx := w.mapFind(m.m, k); idx >= 0 {
			m.m.vals[idx] = v
		} else {
			m.m.keys = append(m.m.keys, k)
			m.m.vals = append(m.m.vals, v)
		}
		fr.pc++
	case *ssa.Range:
		x := w.get(fr, i.X)
		switch r := x.(type) {
		case MapV:
			it := &RangeIter{m: r.m}
			if r.m != nil {
				w.touch(r.m.id, false)
				it.keys = append(it.keys, r.m.keys...)
				it.vals = append(it.vals, r.m.vals...)
			}
			w.setReg(fr, i, it)
		case Str:
			s := r
			w.setReg(fr, i, &RangeIter{str: &s})
		default:
			w.abort("UNSUPPORTED Range over %T", x)
		}
		fr.pc++
	case *ssa.Next:
		w.execNext(g, fr, i)
	case *ssa.Call:
		fin := func(res Value) {
			w.setReg(fr, i, res)
			fr.pc++
		}
		if w.cfg.Gran >= 3 && !w.inAtEnd {
			// finest granularity: every call of a function with a body is a preemption point (used by
			// small directed harnesses to expose unsynchronised sharing between two goroutines)
			if f, ok := i.Common().Value.(*ssa.Function); ok && f.Blocks != nil && w.in.intrinsics[f.String()] == nil {
				op := &syncOp{desc: "call " + f.Name(), ready: func() bool { return true }}
				op.exec = func() { w.execCall(g, fr, i, i.Common(), fin) }
				w.syncPoint(g, op, true)
				return
			}
		}
		w.execCall(g, fr, i, i.Common(), fin)
	case *ssa.Defer:
		fn, args, ok := w.resolveCall(g, fr, i.Common())
		if !ok {
			return
		}
		fr.defers = append(fr.defers, &deferred{fn, args})
		fr.pc++
	case *ssa.Go:
		fn, args, ok := w.resolveCall(g, fr, i.Common())
		if !ok {
			return
		}
		c := fn.(*Closure)
		op := &syncOp{desc: "go", ready: func() bool { return true }}
		op.exec = func() {
			ng := w.newG(c.describe())
			ng.created = w.siteOf(fr)
			w.stats.Goroutines++
			if c.fn == nil {
				w.abort("UNSUPPORTED go of builtin %s", c.intr)
			}
			w.tracef("g%d: go %s -> g%d", g.id, c.describe(), ng.id)
			w.callFn(ng, c.fn, args, c.fv, func(Value) {})
			if len(ng.frames) == 0 {
				ng.done = true
			} else {
				// a fresh goroutine waits to be scheduled
				ng.pend = &syncOp{desc: "start", ready: func() bool { return true }, exec: func() {}}
			}
			fr.pc++
		}
		w.syncPoint(g, op, w.cfg.Gran >= 1)
	case *ssa.Send:
		ch, _ := w.get(fr, i.Chan).(ChanV)
		v := w.get(fr, i.X)
		w.chanSend(g, ch.c, v, func() { fr.pc++ })
	case *ssa.Select:
		w.execSelect(g, fr, i)
	default:
		w.abort("UNSUPPORTED instruction %T in %s", instr, fr.fn)
	}
}

func (c *Closure) describe() string {
	if c == nil {
		return "nil"
	}
	if c.fn != nil {
		return c.fn.String()
	}
	return c.intr
}

func (w *World) jump(fr *Frame, to *ssa.BasicBlock) {
	fr.prev = fr.blk
	fr.blk = to
	fr.pc = 0
}

func (w *World) ret(g *G, fr *Frame, res Value) {
	g.frames = g.frames[:len(g.frames)-1]
	if len(g.frames) == 0 {
		g.done = true
		w.tracef("g%d exit", g.id)
	}
	if fr.onRet != nil {
		fr.onRet(res)
	}
}

func (w *World) panicText(v Value) string {
	if i, ok := v.(Iface); ok {
		if s, ok := i.v.(Str); ok {
			if cs, ok := w.concreteStr(s); ok {
				return cs
			}
		}
		if i.t != nil {
			return "value of type " + i.t.String()
		}
	}
	return "?"
}

// storeTo writes through a pointer value; false if a panic was raised.
func (w *World) storeTo(g *G, addr Value, val Value) bool {
	switch p := addr.(type) {
	case Ptr:
		if p.c == nil {
			w.goPanic(g, "invalid memory address or nil pointer dereference", nil)
			return false
		}
		w.store(p.c, val)
	case BytePtr:
		w.touch(p.a.id, true)
		p.a.set(p.i, val.(*Term))
	default:
		w.abort("internal: store through %T", addr)
	}
	return true
}

func (w *World) loadFrom(g *G, addr Value, typ types.Type) (Value, bool) {
	switch p := addr.(type) {
	case Ptr:
		if p.c == nil {
			w.goPanic(g, "invalid memory address or nil pointer dereference", nil)
			return nil, false
		}
		v := w.load(p.c)
		// unsafe reinterpretation of a slice header as a string header (hslam/code.DecodeString)
		if sl, ok := v.(Slice); ok {
			if b, ok := typ.Underlying().(*types.Basic); ok && b.Kind() == types.String {
				if sl.a == nil {
					return Str{}, true
				}
				if !sl.a.isBytes {
					w.abort("UNSUPPORTED unsafe string view over non-byte array")
				}
				return Str{sl.a, sl.off, sl.len}, true
			}
		}
		return v, true
	case BytePtr:
		return p.a.get(w, p.i), true
	}
	w.abort("internal: load through %T", addr)
	return nil, false
}

func (w *World) execUnOp(g *G, fr *Frame, i *ssa.UnOp) {
	x := w.get(fr, i.X)
	switch i.Op {
	case token.MUL:
		v, ok := w.loadFrom(g, x, i.Type())
		if !ok {
			return
		}
		w.setReg(fr, i, v)
	case token.NOT:
		w.setReg(fr, i, w.tt.Not(x.(*Term)))
	case token.SUB:
		t := x.(*Term)
		if t.W == -64 {
			w.setReg(fr, i, w.tt.FNeg(t))
		} else {
			w.setReg(fr, i, w.tt.Un(OpNeg, t))
		}
	case token.XOR:
		w.setReg(fr, i, w.tt.Un(OpBNot, x.(*Term)))
	case token.ARROW:
		ch, _ := x.(ChanV)
		w.chanRecv(g, ch.c, i.CommaOk, func(v Value) {
			w.setReg(fr, i, v)
			fr.pc++
		})
		return
	default:
		w.abort("UNSUPPORTED unary op %v", i.Op)
	}
	fr.pc++
}

// checkIndex bounds-checks idx against n and returns the concrete index.
func (w *World) checkIndex(g *G, idx *Term, n int, it types.Type) (int, bool) {
	if idx.IsConst() {
		k := sext(idx.Val, idx.W)
		if b, ok := it.Underlying().(*types.Basic); ok && b.Info()&types.IsUnsigned != 0 {
			if idx.Val >= uint64(n) {
				w.goPanic(g, fmt.Sprintf("index out of range [%d] with length %d", idx.Val, n), nil)
				return 0, false
			}
			return int(idx.Val), true
		}
		if k < 0 || k >= int64(n) {
			w.goPanic(g, fmt.Sprintf("index out of range [%d] with length %d", k, n), nil)
			return 0, false
		}
		return int(k), true
	}
	in := w.tt.Cmp(OpUlt, idx, w.tt.BV(uint64(n), idx.W))
	if !w.branch(in) {
		w.goPanic(g, fmt.Sprintf("index out of range [symbolic] with length %d", n), nil)
		return 0, false
	}
	return int(w.concretize(idx, "index")), true
}

func (w *World) execIndexAddr(g *G, fr *Frame, i *ssa.IndexAddr) {
	x := w.get(fr, i.X)
	idx := w.get(fr, i.Index).(*Term)
	switch a := x.(type) {
	case Slice:
		k, ok := w.checkIndex(g, idx, a.len, i.Index.Type())
		if !ok {
			return
		}
		if a.a.isBytes {
			w.setReg(fr, i, BytePtr{a.a, a.off + k})
		} else {
			w.setReg(fr, i, Ptr{a.a.cells[a.off+k]})
		}
	case Ptr:
		if a.c == nil {
			w.goPanic(g, "invalid memory address or nil pointer dereference", nil)
			return
		}
		k, ok := w.checkIndex(g, idx, len(a.c.fields), i.Index.Type())
		if !ok {
			return
		}
		w.setReg(fr, i, Ptr{a.c.fields[k]})
	default:
		w.abort("UNSUPPORTED IndexAddr on %T", x)
	}
	fr.pc++
}

func (w *World) execSlice(g *G, fr *Frame, i *ssa.Slice) {
	x := w.get(fr, i.X)
	var base Slice
	isStr := false
	limit := 0
	switch a := x.(type) {
	case Slice:
		base = a
		limit = a.cap
	case Str:
		base = Slice{a.a, a.off, a.len, a.len}
		isStr = true
		limit = a.len
	case Ptr:
		if a.c == nil {
			w.goPanic(g, "invalid memory address or nil pointer dereference", nil)
			return
		}
		n := len(a.c.fields)
		w.nextID++
		arr := &Arr{n: n, cells: a.c.fields, id: w.nextID}
		base = Slice{arr, 0, n, n}
		limit = n
	default:
		w.abort("UNSUPPORTED Slice of %T", x)
	}
	lo, hi, mx := w.tt.BV(0, 64), w.tt.BV(uint64(base.len), 64), w.tt.BV(uint64(base.cap), 64)
	to64 := func(v ssa.Value) *Term {
		t := w.get(fr, v).(*Term)
		if b, ok := v.Type().Underlying().(*types.Basic); ok && b.Info()&types.IsUnsigned != 0 {
			return w.tt.ZExt(t, 64)
		}
		return w.tt.SExt(t, 64)
	}
	if i.Low != nil {
		lo = to64(i.Low)
	}
	if i.High != nil {
		hi = to64(i.High)
	}
	if i.Max != nil {
		mx = to64(i.Max)
		limit = base.cap
	}
	lim := w.tt.BV(uint64(limit), 64)
	var okc *Term
	if i.Max != nil {
		okc = w.tt.And(w.tt.And(w.tt.Cmp(OpUle, lo, hi), w.tt.Cmp(OpUle, hi, mx)), w.tt.Cmp(OpUle, mx, lim))
	} else {
		okc = w.tt.And(w.tt.Cmp(OpUle, lo, hi), w.tt.Cmp(OpUle, hi, lim))
	}
	if !w.branch(okc) {
		w.goPanic(g, fmt.Sprintf("slice bounds out of range (capacity %d)", limit), nil)
		return
	}
	l := int(w.concretize(lo, "slice low"))
	h := int(w.concretize(hi, "slice high"))
	m := base.cap
	if i.Max != nil {
		m = int(w.concretize(mx, "slice max"))
	}
	if isStr {
		if h-l == 0 {
			w.setReg(fr, i, Str{})
		} else {
			w.setReg(fr, i, Str{base.a, base.off + l, h - l})
		}
	} else {
		if base.a == nil {
			w.setReg(fr, i, Slice{})
		} else {
			w.setReg(fr, i, Slice{base.a, base.off + l, h - l, m - l})
		}
	}
	fr.pc++
}

func (w *World) implements(dyn types.Type, iface *types.Interface) bool {
	return types.Implements(dyn, iface)
}

func (w *World) execTypeAssert(g *G, fr *Frame, i *ssa.TypeAssert) {
	x, _ := w.get(fr, i.X).(Iface)
	ok := false
	var res Value
	if x.t != nil {
		if it, isI := i.AssertedType.Underlying().(*types.Interface); isI {
			if w.implements(x.t, it) {
				ok = true
				res = x
			}
		} else if types.Identical(x.t, i.AssertedType) {
			ok = true
			res = x.v
		}
	}
	if i.CommaOk {
		if !ok {
			res = w.zero(i.AssertedType)
		}
		w.setReg(fr, i, Tuple{res, w.tt.Bool(ok)})
		fr.pc++
		return
	}
	if !ok {
		w.goPanic(g, fmt.Sprintf("interface conversion: interface is %v, not %v", x.t, i.AssertedType), nil)
		return
	}
	w.setReg(fr, i, res)
	fr.pc++
}

// mapFind returns the index of key k in m, forking when the match depends on symbolic data.
func (w *World) mapFind(m *MapObj, k Value) int {
	if m == nil {
		return -1
	}
	w.touch(m.id, false)
	for idx, mk := range m.keys {
		eq := w.valueEq(mk, k)
		if w.branch(eq) {
			return idx
		}
	}
	return -1
}

func (w *World) execLookup(g *G, fr *Frame, i *ssa.Lookup) {
	x := w.get(fr, i.X)
	switch m := x.(type) {
	case MapV:
		k := w.get(fr, i.Index)
		idx := w.mapFind(m.m, k)
		var v Value
		if idx >= 0 {
			v = m.m.vals[idx]
		} else {
			v = w.zero(i.X.Type().Underlying().(*types.Map).Elem())
		}
		if i.CommaOk {
			w.setReg(fr, i, Tuple{v, w.tt.Bool(idx >= 0)})
		} else {
			w.setReg(fr, i, v)
		}
	case Str:
		idx := w.get(fr, i.Index).(*Term)
		k, ok := w.checkIndex(g, idx, m.len, i.Index.Type())
		if !ok {
			return
		}
		w.setReg(fr, i, m.a.get(w, m.off+k))
	default:
		w.abort("UNSUPPORTED Lookup on %T", x)
	}
	fr.pc++
}

func (w *World) execNext(g *G, fr *Frame, i *ssa.Next) {
	it := w.get(fr, i.Iter).(*RangeIter)
	if i.IsString {
		w.abort("UNSUPPORTED range over string")
	}
	// skip entries deleted from the map since the iteration began (Go semantics)
	for {
		remaining := []int{}
		for k := it.pos; k < len(it.keys); k++ {
			remaining = append(remaining, k)
		}
		if len(remaining) == 0 {
			mt := i.Iter.(*ssa.Range).X.Type().Underlying().(*types.Map)
			w.setReg(fr, i, Tuple{w.tt.False, w.zero(mt.Key()), w.zero(mt.Elem())})
			fr.pc++
			return
		}
		pick := 0
		if w.mapOrder && len(remaining) > 1 {
			pick = w.ex.choose("maporder", len(remaining))
		}
		k := remaining[pick]
		it.keys[it.pos], it.keys[k] = it.keys[k], it.keys[it.pos]
		it.vals[it.pos], it.vals[k] = it.vals[k], it.vals[it.pos]
		key := it.keys[it.pos]
		it.pos++
		// still present?
		cur := -1
		for idx, mk := range it.m.keys {
			if w.sameKey(mk, key) {
				cur = idx
				break
			}
		}
		if cur < 0 {
			continue
		}
		w.setReg(fr, i, Tuple{w.tt.True, key, it.m.vals[cur]})
		fr.pc++
		return
	}
}

// sameKey is syntactic key identity (used for entries already known to be in the map).
func (w *World) sameKey(a, b Value) bool {
	t := w.valueEq(a, b)
	return t.IsTrue()
}

func (w *World) resolveCall(g *G, fr *Frame, c *ssa.CallCommon) (Value, []Value, bool) {
	var args []Value
	var fn Value
	if c.IsInvoke() {
		recv, _ := w.get(fr, c.Value).(Iface)
		if recv.t == nil {
			w.goPanic(g, "invalid memory address or nil pointer dereference (method call on nil interface)", nil)
			return nil, nil, false
		}
		m := w.lookupMethod(recv.t, c.Method)
		if m == nil {
			w.abort("UNSUPPORTED: no method %s on %v", c.Method.Name(), recv.t)
		}
		fn = &Closure{fn: m}
		args = append(args, recv.v)
	} else {
		fn = w.get(fr, c.Value)
	}
	for _, a := range c.Args {
		args = append(args, w.get(fr, a))
	}
	return fn, args, true
}

func (w *World) lookupMethod(t types.Type, m *types.Func) *ssa.Function {
	ms := w.in.Prog.MethodSets.MethodSet(t)
	sel := ms.Lookup(m.Pkg(), m.Name())
	if sel == nil {
		return nil
	}
	return w.in.Prog.MethodValue(sel)
}

func (w *World) execCall(g *G, fr *Frame, instr ssa.Instruction, c *ssa.CallCommon, fin func(Value)) {
	fn, args, ok := w.resolveCall(g, fr, c)
	if !ok {
		return
	}
	cl, _ := fn.(*Closure)
	if cl != nil && cl.fn == nil && len(cl.intr) > 8 && cl.intr[:8] == "builtin:" {
		w.builtin(g, fr, cl.intr[8:], args, c, fin)
		return
	}
	w.callValue(g, fn, args, fin)
}
