package engine

import (
	"fmt"
	"go/types"

	"golang.org/x/tools/go/ssa"
)

// Value is a run-time value of the symbolic interpreter:
//
//	*Term    scalars (bool, integers, float64)
//	Ptr      pointer to a Cell (nil pointer: Ptr{})
//	BytePtr  pointer to one element of a byte array
//	Slice    slice header over an Arr (lengths are always concrete)
//	Str      string header over a byte Arr
//	Iface    interface value (nil interface: Iface{})
//	*Closure function value (nil func: (*Closure)(nil))
//	MapV, ChanV, Struct, ArrayV, Tuple, *Opaque
type Value interface{}

// Cell is an addressable memory location. Aggregates (structs, arrays) own sub-cells.
type Cell struct {
	v      Value
	fields []*Cell
	id     int
	typ    types.Type
}

// Ptr is a pointer to a cell.
type Ptr struct{ c *Cell }

// BytePtr addresses element i of a byte array.
type BytePtr struct {
	a *Arr
	i int
}

// Arr is the backing store of slices and strings. Byte arrays keep terms, others cells.
type Arr struct {
	isBytes bool
	n       int
	cells   []*Cell
	dense   []*Term       // byte arrays up to denseLimit
	sparse  map[int]*Term // larger byte arrays
	base    string        // non-empty: unwritten bytes are symbols base[i]; empty: zero
	id      int
	elem    types.Type
}

const denseLimit = 4096

// Slice header.
type Slice struct {
	a             *Arr
	off, len, cap int
}

// Str is a string header.
type Str struct {
	a        *Arr
	off, len int
}

// Iface is an interface value.
type Iface struct {
	t types.Type
	v Value
}

// Closure is a function value.
type Closure struct {
	fn    *ssa.Function
	fv    []Value
	intr  string // engine-level builtin (bound intrinsic), fn == nil
	bound []Value
}

// MapV is a map reference.
type MapV struct{ m *MapObj }

// MapObj is an insertion-ordered association list.
type MapObj struct {
	keys []Value
	vals []Value
	id   int
	kt   types.Type
	vt   types.Type
}

// ChanV is a channel reference.
type ChanV struct{ c *ChanObj }

// ChanObj is a buffered channel.
type ChanObj struct {
	buf    []Value
	cap    int
	closed bool
	id     int
	elem   types.Type
	timer  *timerState
}

// Struct is a struct value (by value).
type Struct struct{ f []Value }

// ArrayV is a fixed-size array value.
type ArrayV struct{ e []Value }

// Tuple is a multi-value result.
type Tuple []Value

// Opaque is a model-level object (reflection handles etc.).
type Opaque struct {
	tag     string
	payload interface{}
}

// RangeIter is the state of a range loop over a map or string.
type RangeIter struct {
	m    *MapObj
	keys []Value
	vals []Value
	pos  int
	str  *Str
}

func (a *Arr) get(w *World, i int) *Term {
	w.touch(a.id, false)
	if i < 0 || i >= a.n {
		panic(fmt.Sprintf("engine: byte index %d out of array bound %d", i, a.n))
	}
	var t *Term
	if a.dense != nil {
		t = a.dense[i]
	} else {
		t = a.sparse[i]
	}
	if t == nil {
		if a.base != "" {
			t = w.tt.Sym(fmt.Sprintf("%s[%d]", a.base, i), 8)
		} else {
			t = w.zero8
		}
	}
	return t
}

func (a *Arr) set(i int, t *Term) {
	if i < 0 || i >= a.n {
		panic(fmt.Sprintf("engine: byte index %d out of array bound %d", i, a.n))
	}
	if a.dense != nil {
		a.dense[i] = t
	} else {
		a.sparse[i] = t
	}
}

func (w *World) newByteArr(n int, base string) *Arr {
	w.nextID++
	a := &Arr{isBytes: true, n: n, base: base, id: w.nextID}
	if n <= denseLimit {
		a.dense = make([]*Term, n)
	} else {
		a.sparse = map[int]*Term{}
	}
	return a
}

func (w *World) newCellArr(n int, elem types.Type) *Arr {
	w.nextID++
	a := &Arr{n: n, id: w.nextID, elem: elem}
	a.cells = make([]*Cell, n)
	for i := range a.cells {
		a.cells[i] = w.newCell(elem)
	}
	return a
}

func isByteType(t types.Type) bool {
	b, ok := t.Underlying().(*types.Basic)
	return ok && (b.Kind() == types.Uint8 || b.Kind() == types.Int8)
}

// newArr allocates backing store for n elements of type elem.
func (w *World) newArr(n int, elem types.Type) *Arr {
	if isByteType(elem) {
		return w.newByteArr(n, "")
	}
	return w.newCellArr(n, elem)
}

func (w *World) strConst(s string) Str {
	if s == "" {
		return Str{}
	}
	if a, ok := w.strCache[s]; ok {
		return Str{a, 0, len(s)}
	}
	a := w.newByteArr(len(s), "")
	for i := 0; i < len(s); i++ {
		a.set(i, w.tt.BV(uint64(s[i]), 8))
	}
	w.strCache[s] = a
	return Str{a, 0, len(s)}
}

// concreteStr returns the Go string when every byte is constant.
func (w *World) concreteStr(s Str) (string, bool) {
	b := make([]byte, s.len)
	for i := 0; i < s.len; i++ {
		t := s.a.get(w, s.off+i)
		if !t.IsConst() {
			return "", false
		}
		b[i] = byte(t.Val)
	}
	return string(b), true
}

func basicWidth(b *types.Basic) (w int, signed bool, ok bool) {
	switch b.Kind() {
	case types.Bool, types.UntypedBool:
		return 0, false, true
	case types.Int8:
		return 8, true, true
	case types.Uint8:
		return 8, false, true
	case types.Int16:
		return 16, true, true
	case types.Uint16:
		return 16, false, true
	case types.Int32, types.UntypedRune:
		return 32, true, true
	case types.Uint32:
		return 32, false, true
	case types.Int, types.Int64, types.UntypedInt:
		return 64, true, true
	case types.Uint, types.Uint64, types.Uintptr:
		return 64, false, true
	case types.Float64, types.UntypedFloat, types.Float32:
		return -64, true, true
	}
	return 0, false, false
}

// zero returns the zero value of type t.
func (w *World) zero(t types.Type) Value {
	switch u := t.Underlying().(type) {
	case *types.Basic:
		if u.Kind() == types.String || u.Kind() == types.UntypedString {
			return Str{}
		}
		if u.Kind() == types.UnsafePointer {
			return Ptr{}
		}
		if u.Kind() == types.UntypedNil {
			return Ptr{}
		}
		bw, _, ok := basicWidth(u)
		if !ok {
			panic("zero: unsupported basic type " + u.String())
		}
		switch bw {
		case 0:
			return w.tt.False
		case -64:
			return w.tt.F64(0)
		}
		return w.tt.BV(0, bw)
	case *types.Pointer:
		return Ptr{}
	case *types.Slice:
		return Slice{}
	case *types.Interface:
		return Iface{}
	case *types.Signature:
		return (*Closure)(nil)
	case *types.Map:
		return MapV{}
	case *types.Chan:
		return ChanV{}
	case *types.Struct:
		s := Struct{f: make([]Value, u.NumFields())}
		for i := range s.f {
			s.f[i] = w.zero(u.Field(i).Type())
		}
		return s
	case *types.Array:
		a := ArrayV{e: make([]Value, u.Len())}
		for i := range a.e {
			a.e[i] = w.zero(u.Elem())
		}
		return a
	case *types.Tuple:
		tp := make(Tuple, u.Len())
		for i := range tp {
			tp[i] = w.zero(u.At(i).Type())
		}
		return tp
	}
	panic("zero: unsupported type " + t.String())
}

// newCell allocates a zero-initialised cell of type t.
func (w *World) newCell(t types.Type) *Cell {
	w.nextID++
	c := &Cell{id: w.nextID, typ: t}
	switch u := t.Underlying().(type) {
	case *types.Struct:
		c.fields = make([]*Cell, u.NumFields())
		for i := range c.fields {
			c.fields[i] = w.newCell(u.Field(i).Type())
		}
	case *types.Array:
		c.fields = make([]*Cell, u.Len())
		for i := range c.fields {
			c.fields[i] = w.newCell(u.Elem())
		}
	default:
		c.v = w.zero(t)
	}
	return c
}

func (c *Cell) isAgg() bool { return c.fields != nil || isAggType(c.typ) }

func isAggType(t types.Type) bool {
	if t == nil {
		return false
	}
	switch t.Underlying().(type) {
	case *types.Struct, *types.Array:
		return true
	}
	return false
}

// load reads the value stored in c (deep copy for aggregates).
func (w *World) load(c *Cell) Value {
	w.touch(c.id, false)
	if c.fields != nil || isAggType(c.typ) {
		if _, ok := c.typ.Underlying().(*types.Array); ok {
			a := ArrayV{e: make([]Value, len(c.fields))}
			for i, f := range c.fields {
				a.e[i] = w.load(f)
			}
			return a
		}
		s := Struct{f: make([]Value, len(c.fields))}
		for i, f := range c.fields {
			s.f[i] = w.load(f)
		}
		return s
	}
	return c.v
}

// store writes v into c.
func (w *World) store(c *Cell, v Value) {
	w.touch(c.id, true)
	if c.fields != nil || isAggType(c.typ) {
		switch x := v.(type) {
		case Struct:
			if len(x.f) != len(c.fields) {
				panic(fmt.Sprintf("store: struct arity mismatch %d vs %d (%v)", len(x.f), len(c.fields), c.typ))
			}
			for i, f := range c.fields {
				w.store(f, x.f[i])
			}
		case ArrayV:
			for i, f := range c.fields {
				w.store(f, x.e[i])
			}
		default:
			panic(fmt.Sprintf("store: aggregate cell of %v given %T", c.typ, v))
		}
		return
	}
	c.v = v
}

// describe renders a value for traces.
func (w *World) describe(v Value) string {
	switch x := v.(type) {
	case nil:
		return "<nil>"
	case *Term:
		if x.IsConst() {
			if x.W == 0 {
				return fmt.Sprint(x.Val == 1)
			}
			return fmt.Sprintf("%d", x.Val)
		}
		return "sym"
	case Ptr:
		if x.c == nil {
			return "nil"
		}
		return fmt.Sprintf("&c%d", x.c.id)
	case Str:
		if s, ok := w.concreteStr(x); ok {
			return fmt.Sprintf("%q", s)
		}
		return fmt.Sprintf("str(len=%d)", x.len)
	case Slice:
		if x.a == nil {
			return "[]nil"
		}
		return fmt.Sprintf("slice(a%d,%d,%d,%d)", x.a.id, x.off, x.len, x.cap)
	case Iface:
		if x.t == nil {
			return "nil"
		}
		return fmt.Sprintf("iface(%v:%s)", x.t, w.describe(x.v))
	case *Closure:
		if x == nil {
			return "nilfunc"
		}
		if x.fn != nil {
			return x.fn.String()
		}
		return x.intr
	}
	return fmt.Sprintf("%T", v)
}
