#!/bin/sh
# dev aid: benign_eval.sh <patch.diff> <tag>
#  applies a behaviour-preserving change to a scratch worktree of /repo, confirms that it builds and
#  that the unedited suite passes, then runs EVERY property's quick check against it (VERIF_REPO).
#  Any exit != 0 is a false alarm (or the change is not benign after all): both need a human look.
export GOFLAGS=-mod=mod GOPROXY=off GOSUMDB=off GOTOOLCHAIN=local
patch=$1; tag=$2
wt=/tmp/wt/benign_$tag
git -C /repo worktree remove --force $wt 2>/dev/null
git -C /repo worktree add -q --detach $wt HEAD || exit 2
( cd $wt && git apply -3 $patch ) || { echo "BENIGN $tag: patch does not apply"; git -C /repo worktree remove --force $wt; exit 2; }
res=""
( cd $wt && go build ./... ) && res="build=ok" || res="build=FAIL"
if [ -z "$SKIPSUITE" ]; then
( cd $wt && unshare -n sh -c 'ip link set lo up; go test -vet=off -count=1 -timeout 25m . ' >/tmp/benign_suite_$tag.log 2>&1 ) && res="$res suite=pass" || res="$res suite=FAIL"
fi
out=""
scratch=$(mktemp -d)
for p in ${PROPS:-C01 C02 C03 C04 C05 C06 C07 C08 C09 C10 C11 C12 C13 C14 C15 C16 C17 C18 C19 C20}; do
  VERIF_REPO=$wt VERIF_OUT=$scratch SSASYM_NONATIVE=${NONATIVE:-0} /verif/check $p ${TIER:-quick} > /tmp/benign_check_${tag}_$p.log 2>&1; rc=$?
  [ $rc -ne 0 ] && { out="$out $p:exit=$rc"; grep -E "^VIOLATION|^  harness=|^CHECK-INCOMPLETE|UNSUPPORTED|error" /tmp/benign_check_${tag}_$p.log | cut -c1-260 | head -6; }
done
rm -rf $scratch
git -C /repo worktree remove --force $wt
echo "BENIGN $tag: $res nonzero:[${out}]"
