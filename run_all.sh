#!/bin/sh
# dev aid: run every registered check at a tier, summarise
tier=${1:-quick}
for p in $(python3 -c "import json;print(' '.join(sorted(json.load(open('checks.json')))))"); do
  s=$(date +%s)
  ./check $p $tier > ${LOGDIR:-/tmp}/check_$p.log 2>&1; rc=$?
  e=$(date +%s)
  echo "$p exit=$rc time=$((e-s))s viol=$(grep -c '^VIOLATION' ${LOGDIR:-/tmp}/check_$p.log) known=$(grep -c '^KNOWN-FINDING' ${LOGDIR:-/tmp}/check_$p.log) incomplete=$(grep -c '^CHECK-INCOMPLETE' ${LOGDIR:-/tmp}/check_$p.log)"
done
