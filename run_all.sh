#!/bin/sh
# dev aid: run every registered check at a tier, summarise
tier=${1:-quick}
for p in $(python3 -c "import json;print(' '.join(sorted(json.load(open('/verif/checks.json')))))"); do
  s=$(date +%s)
  ./check $p $tier > /tmp/check_$p.log 2>&1; rc=$?
  e=$(date +%s)
  echo "$p exit=$rc time=$((e-s))s viol=$(grep -c '^VIOLATION' /tmp/check_$p.log) known=$(grep -c '^KNOWN-FINDING' /tmp/check_$p.log) incomplete=$(grep -c '^CHECK-INCOMPLETE' /tmp/check_$p.log)"
done
