package rpc

import "time"

// ---- C17: scheduling policies do what their names say ----

func zzTargets(n int) (list, map[string]*target) {
	names := []string{"a", "b", "c", "d", "e", "f"}
	l := make(list, n)
	m := map[string]*target{}
	for i := 0; i < n; i++ {
		l[i] = &target{address: names[i], latency: vI64("lat"), alive: true}
		m[names[i]] = l[i]
	}
	return l, m
}

// zzH_C17rr: from any cursor position, n consecutive round-robin picks are n distinct live targets.
func zzH_C17rr() {
	n := 2 + vChoose("n", vParam("c17.maxn", 4)-1)
	l, m := zzTargets(n)
	c := &Client{targets: m, list: l, minHeap: append(list{}, l...), Scheduling: RoundRobinScheduling}
	c.pos = vInt("pos")
	vAssume(c.pos >= 0 && c.pos < n)
	seen := map[*target]bool{}
	for i := 0; i < n; i++ {
		addr, t, err := c.schedule()
		vAssert(err == nil && addr == "" && t != nil, "pick-ok")
		vAssert(!seen[t], "distinct")
		seen[t] = true
		vAssert(c.pos >= 0 && c.pos < n, "cursor-in-range")
	}
	vReach("end")
}

// zzH_C17rand: Random only picks live targets (rand.Intn is an arbitrary value in [0,n)).
func zzH_C17rand() {
	n := 2 + vChoose("n", vParam("c17.maxn", 4)-1)
	l, m := zzTargets(n)
	c := &Client{targets: m, list: l, minHeap: append(list{}, l...), Scheduling: RandomScheduling}
	_, t, err := c.schedule()
	vAssert(err == nil && t != nil, "pick-ok")
	found := false
	for _, x := range l {
		if x == t {
			found = true
		}
	}
	vAssert(found, "picked-live-target")
	vReach("end")
}

// zzH_C17heap: after minHeap the root's latency is minimal and the heap is a permutation of its input;
// for arbitrary 64-bit latencies.
func zzH_C17heap() {
	n := 2 + vChoose("n", vParam("c17.maxn", 4)-1)
	l, _ := zzTargets(n)
	h := append(list{}, l...)
	minHeap(h)
	for i := 0; i < n; i++ {
		vAssert(h[0].latency <= l[i].latency, "root-minimal")
	}
	// permutation: every input element occurs in h and h has no duplicates
	for i := 0; i < n; i++ {
		cnt := 0
		for j := 0; j < n; j++ {
			if h[j] == l[i] {
				cnt++
			}
		}
		vAssert(cnt == 1, "permutation")
	}
	vReach("end")
}

// zzH_C17lt: LeastTime: a probe pick happens iff lastTime+Tick < now, advances the cursor and records
// now; otherwise the pick is a target of minimal latency.
func zzH_C17lt() {
	n := 2 + vChoose("n", vParam("c17.maxn", 4)-1)
	l, m := zzTargets(n)
	c := &Client{targets: m, list: l, minHeap: append(list{}, l...), Scheduling: LeastTimeScheduling}
	c.Tick = time.Duration(vI64("tick"))
	vAssume(c.Tick > 0 && c.Tick < time.Hour)
	c.pos = vInt("pos")
	vAssume(c.pos >= 0 && c.pos < n)
	pos0 := c.pos
	_, t1, err := c.schedule() // first call: lastTime is the zero time, so this is a probe
	vAssert(err == nil && t1 == l[pos0], "first-pick-is-probe-at-cursor")
	vAssert(c.pos == (pos0+1)%n, "probe-advances-cursor")
	last := c.lastTime
	pos1 := c.pos
	_, t2, err := c.schedule()
	vAssert(err == nil && t2 != nil, "second-pick-ok")
	if c.lastTime != last {
		// a second probe: only allowed when more than Tick has elapsed since the first
		vAssert(c.lastTime.Sub(last) > c.Tick, "at-most-one-probe-per-tick")
		vAssert(t2 == l[pos1] && c.pos == (pos1+1)%n, "probe-in-rotation")
	} else {
		vAssert(c.pos == pos1, "non-probe-keeps-cursor")
		for i := 0; i < n; i++ {
			vAssert(t2.latency <= l[i].latency, "non-probe-picks-minimal-latency")
		}
	}
	vReach("end")
}

// zzH_C17ewma: target.Update keeps the documented exponential moving average: differential against
// the reference formula under IEEE-754 semantics, plus the branch structure (dial failure resets to
// the maximum; a maximal previous estimate is replaced by the sample).
func zzH_C17ewma() {
	t := &target{address: "a", latency: vI64("old"), alive: true}
	old := t.latency
	alpha := []float64{0.8, 0.5, 0.0, 1.0, 0.25}[vChoose("alpha", 5)]
	sample := vI64("new")
	vAssume(sample >= 0 && sample < int64(time.Hour))
	vAssume(old >= 0 && old <= clientLatency)
	switch vChoose("err", 3) {
	case 0:
		t.Update(alpha, sample, nil)
		if old >= clientLatency {
			vAssert(t.latency == sample, "first-sample-replaces-max")
		} else {
			vAssert(t.latency == int64(float64(old)*alpha+float64(sample)*(1-alpha)), "ewma-formula")
		}
		vAssert(t.alive, "alive-after-success")
	case 1:
		t.Update(alpha, sample, ErrDial)
		vAssert(t.latency == clientLatency, "dial-failure-resets-to-max")
		vAssert(!t.alive, "dead-after-dial-failure")
	case 2:
		t.Update(alpha, sample, ErrShutdown)
		vAssert(t.alive, "other-errors-keep-alive")
	}
	vReach("end")
}
