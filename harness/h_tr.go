package rpc

import (
	"context"
	"errors"
	"io"
	"time"
)

// ---- Transport harness shared by C13 (limits), C14 (address + recovery), C15 (housekeeping) ----

type zzWorld struct {
	conns []*zzMsgs // every connection ever dialed
	rpc   []*Conn   // the Conn built on conns[i]
	up    map[string]bool
	dials map[string]int
	streams bool // the stub servers refuse stream opens for methods other than S.Watch
	closeErr error // every connection's Close reports this error
}

func (z *zzWorld) live(addr string) int {
	n := 0
	for _, m := range z.conns {
		if m.addr == addr && m.nCloses == 0 {
			n++
		}
	}
	return n
}

func (z *zzWorld) writes(addr string) int {
	n := 0
	for _, m := range z.conns {
		if m.addr == addr {
			n += m.nCalls
		}
	}
	return n
}

var errZZRefused = errors.New("connection refused")

func zzNewTransport(z *zzWorld, maxConns, maxIdle int) *Transport {
	t := &Transport{MaxConnsPerHost: maxConns, MaxIdleConnsPerHost: maxIdle, Network: "zz", Codec: "zz"}
	t.KeepAlive = time.Duration(vParam("tr.keepalive", 1000))
	t.IdleConnTimeout = time.Duration(vParam("tr.idletimeout", 5000))
	if !vSymbolic() {
		// native replay: real clock. Ticks every millisecond, everything older than KeepAlive (1µs)
		// is retired, nothing reaches IdleConnTimeout: the same branch outcomes the model chose.
		t.ticker = time.Millisecond
		t.IdleConnTimeout = time.Hour
	}
	t.Dial = func(network, address, codec string) (*Conn, error) {
		z.dials[address]++
		if !z.up[address] {
			return nil, errZZRefused
		}
		m := newZZMsgs(8)
		m.addr = address
		m.auto = true
		m.autoStreams = z.streams
		m.closeErr = z.closeErr
		m.yieldW = false
		z.conns = append(z.conns, m)
		c := NewConnWithCodec(NewClientCodec(&zzBytesCodec{}, nil, m, 64))
		if vParam("tr.directio", 1) == 1 {
			c.directIO = true
		}
		z.rpc = append(z.rpc, c)
		return c, nil
	}
	return t
}

func (z *zzWorld) kill(addr string) { z.killWith(addr, io.EOF) }

// killWith: the server of addr goes away; its connections end with err (io.EOF for an orderly close,
// any other error for a reset, a time-out, a broken TLS record ...)
func (z *zzWorld) killWith(addr string, err error) {
	z.up[addr] = false
	for _, m := range z.conns {
		if m.addr == addr && !m.closed {
			m.auto = false
			m.fail(err)
		}
	}
}

// zzH_TR: a bounded history of Transport operations over two addresses with symbolic clock readings;
// housekeeping ticks fire at any point the ticker goroutine waits for them.
func zzH_TR() {
	S := vParam("tr.S", 3)
	z := &zzWorld{up: map[string]bool{"a": true, "b": true}, dials: map[string]int{}}
	lim := [][2]int{{1, 1}, {2, 1}, {2, 2}, {0, 0}, {1, 3}}[vChoose("limits", vParam("tr.limits", 3))]
	t := zzNewTransport(z, lim[0], lim[1])
	maxConns, maxIdle := lim[0], lim[1]
	if maxConns < 1 {
		maxConns = DefaultMaxConnsPerHost
	}
	if maxIdle < 1 {
		maxIdle = DefaultMaxIdleConnsPerHost
	} else if maxIdle > maxConns {
		maxIdle = maxConns
	}
	vSetTimerBudget(vParam("tr.ticks", 1))
	addrs := []string{"a", "b"}
	failStreak := map[string]int{}
	everKilled := map[string]bool{}
	for step := 0; step < S; step++ {
		switch vChoose("op", vParam("tr.ops", 4)) {
		case 0, 1:
			a := addrs[vChoose("addr", vParam("tr.addrs", 2))]
			other := "b"
			if a == "b" {
				other = "a"
			}
			wOther := z.writes(other)
			arg := []byte{0x31}
			var reply []byte
			err := t.Call(a, "S.Echo", &arg, &reply)
			vAssert(z.writes(other) == wOther, "sent-only-to-requested-address")
			if err == nil {
				vAssert(vEqBytes(reply, zzReplyFor(arg)), "reply-ok")
				failStreak[a] = 0
			} else if z.up[a] {
				// server is reachable: a sequential caller sees at most one failure per pooled connection
				vAssert(err == ErrShutdown, "failure-is-shutdown")
				failStreak[a]++
				vAssert(failStreak[a] <= maxConns+maxIdle, "recovers-after-one-failure-per-pooled-conn")
			} else {
				vAssert(err == ErrDial || err == ErrShutdown, "down-fails-with-dial-or-shutdown")
			}
		case 2:
			a := addrs[vChoose("addr", vParam("tr.addrs", 2))]
			if z.up[a] {
				z.kill(a)
				everKilled[a] = true
				vQuiesce()
			} else {
				z.up[a] = true
			}
		case 3:
			t.CloseIdleConnections()
		}
		vQuiesce()
		for _, a := range addrs {
			vAssert(z.live(a) <= maxConns, "open-conns-within-MaxConnsPerHost")
			if cq, ok := t.idleConns[a]; ok {
				vAssert(cq.Length() <= maxIdle, "idle-conns-within-MaxIdleConnsPerHost")
			}
		}
	}
	t.Close()
	vAtEnd(func() {
		for _, a := range addrs {
			vAssert(z.live(a) == 0, "close-closes-every-connection")
		}
		vAssert(vBlocked() == 0, "all-goroutines-exit-after-close")
		vReach("end")
	})
}

// zzH_TRrec: recovery after a server restart. One pooled connection to "a" is established, the
// server is killed and restarted, then a sequential caller keeps calling with housekeeping ticks
// allowed between calls (clock readings symbolic, so any spacing relative to KeepAlive /
// IdleConnTimeout): it may see at most one failure (the dead pooled connection) and then success.
func zzH_TRrec() {
	z := &zzWorld{up: map[string]bool{"a": true, "b": true}, dials: map[string]int{}}
	lim := [][2]int{{1, 1}, {2, 1}, {2, 2}}[vChoose("limits", vParam("tr.limits", 3))]
	t := zzNewTransport(z, lim[0], lim[1])
	vSetTimerBudget(vParam("tr.ticks", 2))
	arg := []byte{0x31}
	var reply []byte
	vAssert(t.Call("a", "S.Echo", &arg, &reply) == nil, "first-call-ok")
	vQuiesce()
	pooled := z.live("a")
	z.kill("a")
	vQuiesce()
	z.up["a"] = true
	fails := 0
	R := vParam("tr.R", 3)
	for i := 0; i < R; i++ {
		err := t.Call("a", "S.Echo", &arg, &reply)
		if err != nil {
			vLog("call failed")
			vAssert(err == ErrShutdown, "failure-is-shutdown")
			fails++
			vAssert(fails <= pooled, "at-most-one-failure-per-pooled-connection")
		} else {
			vAssert(vEqBytes(reply, zzReplyFor(arg)), "reply-ok")
			fails = -100 // once it has recovered it must stay recovered
		}
		vQuiesce()
	}
	t.Close()
	vReach("end")
}

// zzH_C15: housekeeping versus a busy connection. A holder goroutine makes a long call (the server
// answers only at the end); meanwhile housekeeping ticks fire (clock symbolic: the connection may
// look arbitrarily old) and CloseIdleConnections runs. The busy connection must not be closed and the
// call must succeed. Afterwards the unused connection is reclaimed and Close closes everything.
func zzH_C15() {
	z := &zzWorld{up: map[string]bool{"a": true, "b": true}, dials: map[string]int{}}
	lim := [][2]int{{1, 1}, {2, 2}}[vChoose("limits", vParam("c15.nlimits", 2))]
	t := zzNewTransport(z, lim[0], lim[1])
	vSetTimerBudget(vParam("c15.ticks", 2))
	arg := []byte{0x31}
	var reply []byte
	warm := vChoose("warm", vParam("c15.nwarm", 2)) == 1
	if warm {
		// an earlier call leaves a pooled connection that may be retired before the long call
		var r0 []byte
		vAssert(t.Call("a", "S.Echo", &arg, &r0) == nil, "warm-up-call-ok")
		vQuiesce()
	}
	for _, m := range z.conns {
		m.auto = false
		m.autoPing = true
		m.out = make(chan []byte, 8)
	}
	autoOff := func() {
		for _, m := range z.conns {
			if m.out == nil {
				m.auto = false
				m.autoPing = true
				m.out = make(chan []byte, 8)
			}
		}
	}
	var err error
	returned := false
	vGo("holder", func() {
		err = t.Call("a", "S.Echo", &arg, &reply)
		returned = true
	})
	if vParam("c15.racy", 0) == 0 {
		vYield()
	}
	autoOff()
	// find the connection carrying the long call (the one with an unanswered request)
	var busy *zzMsgs
	var req pbRequest
	step := func() {
		if busy != nil {
			return
		}
		autoOff()
		for _, m := range z.conns {
			if m.out != nil && len(m.out) > 0 {
				f := <-m.out
				var r pbRequest
				r.Unmarshal(f)
				if len(r.Upgrade) == 0 {
					busy = m
					req = r
				}
			}
		}
	}
	for i := 0; i < vParam("c15.ops", 2); i++ {
		step()
		op := 1
		if vParam("c15.closeonly", 0) == 0 {
			op = vChoose("op", 2)
		}
		switch op {
		case 0:
			vQuiesce() // ticks may fire here
		case 1:
			t.CloseIdleConnections()
		}
		step()
		if busy != nil {
			var bc *Conn
			for i, m := range z.conns {
				if m == busy {
					bc = z.rpc[i]
				}
			}
			// culprit sites = the callers of (*Conn).Close on that connection
			vAssertOn(busy.nCloses == 0, "busy-connection-not-closed-by-housekeeping", bc)
		}
	}
	step()
	closeEarly := busy != nil && vChoose("close-while-busy", 2) == 1
	if busy != nil && !closeEarly {
		busy.deliver(zzResponse(req.Seq, "", zzReplyFor(req.Args)))
	}
	vQuiesce()
	if busy != nil && !closeEarly {
		vAssert(returned && err == nil && vEqBytes(reply, zzReplyFor(arg)), "long-call-succeeds")
	}
	// Transport.Close closes every pooled connection, busy or not (a call still in flight is cut)
	t.Close()
	vAtEnd(func() {
		vAssert(returned, "holder-returns")
		vAssert(z.live("a") == 0 && z.live("b") == 0, "close-closes-every-connection")
		vReach("end")
	})
}

// zzH_TRlim: directed limit check. The pool is filled with MaxConnsPerHost sequential calls, a
// housekeeping tick may retire them (idle queue smaller than the pool in two of the limit vectors),
// the pool is filled again; after every step the number of open connections stays within the limit,
// and Close closes every connection ever dialed.
func zzH_TRlim() {
	z := &zzWorld{up: map[string]bool{"a": true, "b": true}, dials: map[string]int{}}
	raw := [][2]int{{2, 1}, {0, 0}, {2, 5}, {3, 1}, {3, 2}, {2, 2}, {-1, 3}, {1, 0}}[vChoose("limits", vParam("trlim.limits", 4))]
	t := zzNewTransport(z, raw[0], raw[1])
	// documented normalisation: non-positive limits fall back to the defaults (1 and 1), an idle limit
	// above the connection limit is clamped to it
	lim := raw
	if lim[0] < 1 {
		lim[0] = DefaultMaxConnsPerHost
	}
	if lim[1] < 1 {
		lim[1] = DefaultMaxIdleConnsPerHost
	} else if lim[1] > lim[0] {
		lim[1] = lim[0]
	}
	vSetTimerBudget(vParam("tr.ticks", 2))
	arg := []byte{0x31}
	for round := 0; round < vParam("trlim.rounds", 2); round++ {
		for i := 0; i < lim[0]+1; i++ {
			var reply []byte
			vAssert(t.Call("a", "S.Echo", &arg, &reply) == nil, "reply-ok")
			vAssert(z.live("a") <= lim[0], "open-conns-within-MaxConnsPerHost")
		}
		vQuiesce()
		vAssert(z.live("a") <= lim[0], "open-conns-within-MaxConnsPerHost")
		if cq, ok := t.idleConns["a"]; ok {
			vAssert(cq.Length() <= lim[1], "idle-conns-within-MaxIdleConnsPerHost")
		}
	}
	t.Close()
	vAtEnd(func() {
		vAssert(z.live("a") == 0, "close-closes-every-connection")
		vAssert(vBlocked() == 0, "all-goroutines-exit-after-close")
		vReach("end")
	})
}

// zzH_TRcc: two concurrent callers hit a pool whose only connection died (server killed and
// restarted); dialing takes time. The number of open connections must stay within the limit and every
// dialed connection must be closed by Close.
func zzH_TRcc() {
	z := &zzWorld{up: map[string]bool{"a": true, "b": true}, dials: map[string]int{}}
	lim := [][2]int{{1, 1}, {2, 2}}[vChoose("limits", 2)]
	t := zzNewTransport(z, lim[0], lim[1])
	slow := t.Dial
	t.Dial = func(network, address, codec string) (*Conn, error) {
		vYield() // dialing takes time
		return slow(network, address, codec)
	}
	vSetTimerBudget(0)
	arg := []byte{0x31}
	for i := 0; i < lim[0]; i++ {
		var r []byte
		vAssert(t.Call("a", "S.Echo", &arg, &r) == nil, "reply-ok")
	}
	vQuiesce()
	z.kill("a")
	vQuiesce()
	z.up["a"] = true
	// one failing call per pooled connection marks them dead
	for i := 0; i < lim[0]; i++ {
		var r []byte
		t.Call("a", "S.Echo", &arg, &r)
	}
	N := vParam("trcc.callers", 2)
	done := make([]bool, N)
	for i := 0; i < N; i++ {
		i := i
		vGo("caller", func() {
			var r []byte
			t.Call("a", "S.Echo", &arg, &r)
			done[i] = true
		})
	}
	vQuiesce()
	vAssert(z.live("a") <= lim[0], "open-conns-within-MaxConnsPerHost")
	t.Close()
	vAtEnd(func() {
		for i := 0; i < N; i++ {
			vAssert(done[i], "caller-returns")
		}
		vAssert(z.live("a") == 0, "close-closes-every-connection")
		vReach("end")
	})
}

// zzH_TRaddr: two addresses are used, both connections go idle past KeepAlive and are retired by a
// tick, then both addresses are called again: every request must be written on a connection dialed
// to the address the caller named.
func zzH_TRaddr() {
	z := &zzWorld{up: map[string]bool{"a": true, "b": true}, dials: map[string]int{}}
	t := zzNewTransport(z, 1+vChoose("max", 2), 1)
	vSetTimerBudget(vParam("tr.ticks", 2))
	arg := []byte{0x31}
	call := func(a, other string) {
		wa, wo := z.writes(a), z.writes(other)
		var r []byte
		err := t.Call(a, "S.Echo", &arg, &r)
		vAssert(err == nil, "reply-ok")
		vAssert(z.writes(other) == wo && z.writes(a) == wa+1, "sent-only-to-requested-address")
	}
	call("a", "b")
	call("b", "a")
	vQuiesce()
	if vChoose("order", 2) == 0 {
		call("a", "b")
		call("b", "a")
	} else {
		call("b", "a")
		call("a", "b")
	}
	t.Close()
	vReach("end")
}

// zzH_TRvia: recovery as in TRrec, for every call form of the Transport (Call, Ping,
// CallWithContext, NewStream, Go): the form that hits the dead pooled connection must mark it, so
// that the next attempt gets a fresh connection.
func zzH_TRvia() {
	z := &zzWorld{up: map[string]bool{"a": true, "b": true}, dials: map[string]int{}}
	if vChoose("close-reports-an-error", 2) == 1 {
		z.closeErr = errZZWrite // e.g. TLS: the close_notify cannot be written to a connection that was reset
	}
	t := zzNewTransport(z, 1, 1)
	vSetTimerBudget(vParam("tr.ticks", 1))
	arg := []byte{0x31}
	var reply []byte
	vAssert(t.Call("a", "S.Echo", &arg, &reply) == nil, "first-call-ok")
	// optionally a stream is open on the pooled connection when the server dies (the user closes it
	// afterwards, or forgets to)
	var open Stream
	if vChoose("stream-open-at-death", 2) == 1 {
		st, err := t.NewStream("a", "S.Watch")
		vAssert(err == nil && st != nil, "first-call-ok")
		open = st
	}
	vQuiesce()
	if vChoose("dies-with-read-error", 2) == 1 {
		z.killWith("a", errZZRead)
	} else {
		z.kill("a")
	}
	vQuiesce()
	if open != nil && vChoose("close-it-after-death", 2) == 1 {
		open.Close()
		vQuiesce()
	}
	z.up["a"] = true
	via := vChoose("via", 5)
	try := func() error {
		switch via {
		case 0:
			return t.Call("a", "S.Echo", &arg, &reply)
		case 1:
			return t.Ping("a")
		case 2:
			return t.CallWithContext(&zzCtx{done: make(chan struct{})}, "a", "S.Echo", &arg, &reply)
		case 3:
			st, err := t.NewStream("a", "S.Watch")
			if err == nil {
				st.Close()
			}
			return err
		}
		done := make(chan *Call, 1)
		c := t.Go("a", "S.Echo", &arg, &reply, done)
		<-done
		return c.Error
	}
	fails := 0
	for i := 0; i < 3; i++ {
		if err := try(); err != nil {
			vAssert(err == ErrShutdown, "failure-is-shutdown")
			fails++
			vAssert(fails <= 1, "at-most-one-failure-per-pooled-connection")
		} else {
			fails = -100
		}
		vQuiesce()
	}
	t.Close()
	vReach("end")
}

// zzH_TRretry: the request of a Transport.Call reaches the server, then the connection dies before
// the response: the call fails (the library never retries: at most one request is written per call)
// while the server is still reachable for later calls.
func zzH_TRretry() {
	z := &zzWorld{up: map[string]bool{"a": true, "b": true}, dials: map[string]int{}}
	t := zzNewTransport(z, 1, 1)
	vSetTimerBudget(0)
	arg := []byte{0x31}
	var r0 []byte
	vAssert(t.Call("a", "S.Echo", &arg, &r0) == nil, "first-call-ok")
	vQuiesce()
	m := z.conns[0]
	m.auto = false
	m.out = make(chan []byte, 4)
	var err error
	var reply []byte
	returned := false
	vGo("caller", func() {
		err = t.Call("a", "S.Echo", &arg, &reply)
		returned = true
	})
	<-m.out // the request has been written (and executed by the server)
	w := z.writes("a")
	m.fail(io.EOF) // the connection drops before the response
	vQuiesce()
	vAssert(returned && err == ErrShutdown, "call-fails-with-ErrShutdown")
	vAssert(z.writes("a") == w, "request-not-sent-again")
	var r2 []byte
	t.Call("a", "S.Echo", &arg, &r2)
	t.Close()
	vReach("end")
}

// zzH_TRctx: two calls share one pooled connection; one of them is a CallWithContext whose context
// ends (cancelled or deadline exceeded) while the other, slower call is still in flight: the sibling
// must still succeed.
func zzH_TRctx() {
	z := &zzWorld{up: map[string]bool{"a": true, "b": true}, dials: map[string]int{}}
	t := zzNewTransport(z, 1, 1)
	vSetTimerBudget(0)
	arg := []byte{0x31}
	var r0 []byte
	vAssert(t.Call("a", "S.Echo", &arg, &r0) == nil, "first-call-ok")
	vQuiesce()
	m := z.conns[0]
	m.auto = false
	m.out = make(chan []byte, 4)
	ctx := &zzCtx{done: make(chan struct{})}
	var errCtx, errSib error
	var r1, r2 []byte
	sibArg := []byte{0x32, 0x32}
	doneCtx, doneSib := false, false
	vGo("ctx-caller", func() {
		errCtx = t.CallWithContext(ctx, "a", "S.Echo", &arg, &r1)
		doneCtx = true
	})
	vGo("sibling", func() {
		errSib = t.Call("a", "S.Echo", &sibArg, &r2)
		doneSib = true
	})
	var sib pbRequest
	for i := 0; i < 2; i++ {
		f := <-m.out
		var r pbRequest
		r.Unmarshal(f)
		if len(r.Args) == 2 {
			sib = r
		}
	}
	if vChoose("how", 2) == 0 {
		ctx.err = errZZCanceled
	} else {
		ctx.err = context.DeadlineExceeded
	}
	close(ctx.done)
	vQuiesce()
	vAssert(doneCtx && errCtx == ctx.err, "ctx-error-returned")
	vAssert(m.nCloses == 0, "connection-with-sibling-in-flight-not-closed")
	m.deliver(zzResponse(sib.Seq, "", zzReplyFor(sib.Args)))
	vQuiesce()
	vAssert(doneSib && errSib == nil && vEqBytes(r2, zzReplyFor(sibArg)), "sibling-gets-own-reply")
	t.Close()
	vReach("end")
}

// zzH_C15s: housekeeping versus a connection whose only activity is an open stream (also after one
// stream write failed to encode): CloseIdleConnections and ticks must not close it; a message pushed
// afterwards is still delivered.
func zzH_C15s() {
	z := &zzWorld{up: map[string]bool{"a": true, "b": true}, dials: map[string]int{}}
	t := zzNewTransport(z, 1, 1)
	vSetTimerBudget(vParam("c15.ticks", 1))
	st, err := t.NewStream("a", "S.Watch")
	vAssert(err == nil && st != nil, "stream-opened")
	if err != nil {
		return
	}
	m := z.conns[0]
	if vChoose("bad-write", 2) == 1 {
		st.WriteMessage(42) // cannot be encoded: fails inside WriteRequest, the stream stays open
		vQuiesce()
	}
	switch vChoose("op", 2) {
	case 0:
		vQuiesce()
	case 1:
		t.CloseIdleConnections()
	}
	vQuiesce()
	vAssert(m.nCloses == 0, "connection-with-open-stream-not-closed-by-housekeeping")
	t.Close()
	vReach("end")
}

// zzH_TRdown: the server of an address with pooled connections goes down and stays down: the first
// call per pooled connection may still fail with ErrShutdown (the dead connection), every later call
// fails with ErrDial, for every call form.
func zzH_TRdown() {
	z := &zzWorld{up: map[string]bool{"a": true, "b": true}, dials: map[string]int{}}
	lim := [][2]int{{1, 1}, {2, 2}}[vChoose("limits", 2)]
	t := zzNewTransport(z, lim[0], lim[1])
	vSetTimerBudget(vParam("tr.ticks", 1))
	arg := []byte{0x31}
	for i := 0; i < lim[0]; i++ {
		var r []byte
		vAssert(t.Call("a", "S.Echo", &arg, &r) == nil, "first-call-ok")
	}
	vQuiesce()
	pooled := z.live("a")
	z.kill("a")
	vQuiesce()
	via := vChoose("via", 3)
	shutdowns := 0
	for i := 0; i < pooled+2; i++ {
		var r []byte
		var err error
		switch via {
		case 0:
			err = t.Call("a", "S.Echo", &arg, &r)
		case 1:
			err = t.Ping("a")
		case 2:
			err = t.CallWithContext(&zzCtx{done: make(chan struct{})}, "a", "S.Echo", &arg, &r)
		}
		vAssert(err == ErrShutdown || err == ErrDial, "down-fails-with-dial-or-shutdown")
		if err == ErrShutdown {
			shutdowns++
			vAssert(shutdowns <= pooled, "unreachable-server-fails-with-ErrDial-after-one-failure-per-pooled-conn")
		}
		vQuiesce()
	}
	t.Close()
	vReach("end")
}

// zzH_TRcic: CloseIdleConnections (or a housekeeping tick) while the only pooled connection of an
// address carries an unanswered call, MaxConnsPerHost = 1: the busy connection stays where the pool
// can see it, so further traffic to the address does not dial past the limit, the long call still
// succeeds, and Close afterwards closes every connection ever dialed.
func zzH_TRcic() {
	z := &zzWorld{up: map[string]bool{"a": true, "b": true}, dials: map[string]int{}}
	t := zzNewTransport(z, 1, 1)
	vSetTimerBudget(vParam("tr.ticks", 1))
	arg := []byte{0x31}
	var r0 []byte
	vAssert(t.Call("a", "S.Echo", &arg, &r0) == nil, "first-call-ok")
	vQuiesce()
	if len(z.conns) != 1 {
		return
	}
	m := z.conns[0]
	m.auto = false
	m.autoPing = true
	m.out = make(chan []byte, 8)
	var err error
	var reply []byte
	returned := false
	vGo("holder", func() {
		err = t.Call("a", "S.Echo", &arg, &reply)
		returned = true
	})
	vQuiesce()
	if len(z.conns) != 1 || len(m.out) != 1 {
		return // a tick replaced the pooled connection before the long call: not this scenario
	}
	var req pbRequest
	req.Unmarshal(<-m.out)
	if vChoose("housekeeping", 2) == 1 {
		t.CloseIdleConnections()
	} else {
		vQuiesce() // a tick may fire
	}
	vAssert(m.nCloses == 0, "busy-connection-not-closed-by-housekeeping")
	// further traffic to the same address while the long call is still unanswered
	for _, c := range z.conns {
		c.auto = true
	}
	a2 := []byte{0x32}
	var r2 []byte
	e2 := t.Call("a", "S.Echo", &a2, &r2)
	vAssert(e2 == nil && vEqBytes(r2, zzReplyFor(a2)), "reply-ok")
	vAssert(z.live("a") <= 1, "open-conns-within-MaxConnsPerHost")
	m.deliver(zzResponse(req.Seq, "", zzReplyFor(req.Args)))
	vQuiesce()
	vAssert(returned && err == nil && vEqBytes(reply, zzReplyFor(arg)), "long-call-succeeds")
	t.Close()
	vAtEnd(func() {
		vAssert(z.live("a") == 0, "close-closes-every-connection")
		vReach("end")
	})
}

// zzH_C15r: a pooled connection whose last use is over - a call, a ping, a stream that was opened
// and closed, a stream open the server refused - is unused: CloseIdleConnections closes it (and
// Close leaves nothing open). A use that leaves the connection counted as busy for ever would keep
// it out of reach of every reclaiming path.
func zzH_C15r() {
	z := &zzWorld{up: map[string]bool{"a": true, "b": true}, dials: map[string]int{}, streams: true}
	t := zzNewTransport(z, 1, 1)
	vSetTimerBudget(0)
	arg := []byte{0x31}
	var r []byte
	switch vChoose("last-use", 4) {
	case 0:
		vAssert(t.Call("a", "S.Echo", &arg, &r) == nil, "first-call-ok")
	case 1:
		vAssert(t.Ping("a") == nil, "first-call-ok")
	case 2:
		st, err := t.NewStream("a", "S.Watch")
		vAssert(err == nil && st != nil, "first-call-ok")
		if st != nil {
			st.Close()
		}
	case 3:
		st, err := t.NewStream("a", "S.Nope")
		vAssert(err != nil && st == nil, "refused-stream-open-reports-server-error")
	}
	vQuiesce()
	vAssert(z.live("a") == 1, "first-call-ok")
	t.CloseIdleConnections()
	vQuiesce()
	vAssert(z.live("a") == 0, "unused-connection-closed-by-CloseIdleConnections")
	t.Close()
	vAtEnd(func() {
		vAssert(z.live("a") == 0, "close-closes-every-connection")
		vReach("end")
	})
}
