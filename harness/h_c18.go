package rpc

import "time"

// ---- C18: waiters are woken, time out, or are released by Close; nobody is stranded ----

// zzH_C18w: N callers enter while no target is live; then one of: the target becomes healthy,
// the Client is closed, Fallback is requested and the target becomes healthy, or nothing happens.
// Detector ticks and DialTimeout / Fallback timers fire at any quiescent point.
func zzH_C18w() {
	N := vParam("c18.N", 2)
	rt := &zzRT{up: map[string]bool{"a": false, "b": false}}
	c := NewClient(nil)
	c.Transport = rt
	c.Update("a", "b")
	vSetClockStep(1)
	vSetTimerBudget(vParam("c18.ticks", 2))
	errs := make([]error, N)
	returned := make([]bool, N)
	for i := 0; i < N; i++ {
		i := i
		vGo("caller", func() {
			errs[i] = c.Call("S.M", nil, nil)
			returned[i] = true
		})
	}
	ev := vChoose("event", 4)
	vGo("env", func() {
		vYield()
		switch ev {
		case 0:
			rt.up["a"] = true
		case 1:
			c.Close()
		case 2:
			c.Fallback(1000)
			rt.up["a"] = true
		case 3:
		}
	})
	vAtEnd(func() {
		for i := 0; i < N; i++ {
			vAssert(returned[i], "no-caller-stranded")
			switch ev {
			case 0, 2:
				vAssert(errs[i] == nil || errs[i] == ErrTimeout, "woken-or-timed-out")
			case 1:
				vAssert(errs[i] == ErrShutdown || errs[i] == ErrTimeout, "released-by-close-or-timeout")
			case 3:
				vAssert(errs[i] == ErrTimeout, "times-out-when-nothing-is-live")
			}
			if errs[i] == nil {
				vAssert(len(rt.calls) > 0 && rt.calls[len(rt.calls)-1] == "a", "woken-caller-routed-to-live-target")
			}
		}
		if ev != 1 {
			c.Close()
		}
		vAssert(c.Call("S.M", nil, nil) == ErrShutdown, "after-close-fails-at-once")
		vReach("end")
	})
}

// zzH_C18f: fail-over and recovery. Two live targets; one starts refusing connections and is hit by
// calls; once a detector round has probed it again it must be out of the live list (so calls only reach
// the healthy target); after it recovers and is probed successfully it is used again.
func zzH_C18f() {
	rt := &zzRT{up: map[string]bool{"a": true, "b": true}}
	c := NewClient(nil)
	c.Transport = rt
	c.Scheduling = Scheduling(vChoose("policy", 3))
	c.Update("a", "b")
	vSetClockStep(1)
	vSetTimerBudget(vParam("c18.ticks", 3))
	vSetOneShotTimers(false)
	vQuiesce() // the detector finds both targets
	if len(c.list) != 2 {
		return // no detector round happened on this schedule: nothing to check
	}
	rt.up["b"] = false
	hitB := false
	for i := 0; i < 3; i++ {
		n := len(rt.calls)
		c.Call("S.M", nil, nil)
		if len(rt.calls) > n && rt.calls[n] == "b" {
			hitB = true
		}
	}
	if !hitB {
		return // the policy never picked b: it was not marked down by a call
	}
	p0 := len(rt.pings)
	vQuiesce()
	probedB := false
	for _, a := range rt.pings[p0:] {
		if a == "b" {
			probedB = true
		}
	}
	if probedB {
		// b was marked down by the failed call and has been probed (and failed) since
		n := len(rt.calls)
		for i := 0; i < 3; i++ {
			err := c.Call("S.M", nil, nil)
			vAssert(err == nil, "calls-succeed-while-another-target-is-healthy")
		}
		for _, a := range rt.calls[n:] {
			vAssert(a == "a", "refusing-target-receives-no-calls-after-detection")
		}
		// recovery
		rt.up["b"] = true
		p1 := len(rt.pings)
		vQuiesce()
		again := false
		for _, a := range rt.pings[p1:] {
			if a == "b" {
				again = true
			}
		}
		if again {
			c.lock.Lock()
			n2 := len(c.list)
			c.lock.Unlock()
			vAssert(n2 == 2, "recovered-target-is-used-again")
		}
	}
	c.Close()
	vReach("end")
}

// zzH_C20cl: Close of a Client with Fallback pauses outstanding (pauses are long: one-shot timers
// never fire): the detector goroutine and every Fallback goroutine must exit; repeated Close returns
// nil.
func zzH_C20cl() {
	rt := &zzRT{up: map[string]bool{"a": true}}
	c := NewClient(nil)
	c.Transport = rt
	c.Update("a")
	vSetClockStep(1)
	vSetTimerBudget(1)
	vSetOneShotTimers(false)
	k := vChoose("fallbacks", 3)
	for i := 0; i < k; i++ {
		c.Fallback(time.Hour)
	}
	if vChoose("settle", 2) == 1 {
		vQuiesce()
	}
	vAssert(c.Close() == nil, "close-returns-nil")
	vAssert(c.Close() == nil, "second-close-nil")
	vAtEnd(func() {
		vAssert(vBlocked() == 0, "all-goroutines-exit-after-close")
		vAssert(rt.closed >= 1, "transport-closed")
		vReach("end")
	})
}

// zzH_C18c: Close against callers that are about to wait. DialTimeout is modelled as "very long"
// (one-shot timers never fire), so a caller that is not released by Close stays blocked and shows up
// in the terminal state. Every caller must return, with ErrShutdown.
func zzH_C18c() {
	N := vParam("c18.N", 1)
	rt := &zzRT{up: map[string]bool{"a": false}}
	c := NewClient(nil)
	c.Transport = rt
	c.Update("a")
	vSetClockStep(1)
	vSetTimerBudget(vParam("c18.ticks", 1))
	vSetOneShotTimers(false)
	if !vSymbolic() {
		c.DialTimeout = 3 * time.Second
	}
	errs := make([]error, N)
	returned := make([]bool, N)
	for i := 0; i < N; i++ {
		i := i
		vGo("caller", func() {
			errs[i] = c.Call("S.M", nil, nil)
			returned[i] = true
		})
	}
	vYield()
	c.Close()
	vAtEnd(func() {
		for i := 0; i < N; i++ {
			vAssert(returned[i], "no-caller-stranded")
			if returned[i] {
				vAssert(errs[i] == ErrShutdown, "released-by-close-with-ErrShutdown")
			}
		}
		vReach("end")
	})
}

// zzH_C18fb: a caller arrives during a Fallback pause while every target is healthy. DialTimeout is
// beyond the horizon and the ticker is switched off; the harness itself performs the detector round
// that the next tick would perform (Client.detect) once the pause is over: that round must release the
// caller, which is then routed.
func zzH_C18fb() {
	rt := &zzRT{up: map[string]bool{"a": true}}
	c := NewClient(nil)
	c.Transport = rt
	c.Update("a")
	vSetClockStep(1)
	vSetTimerBudget(0)
	vSetOneShotMax(1000000) // 1 ms: Fallback(1000ns) fires, DialTimeout (1 min) does not
	if !vSymbolic() {
		c.DialTimeout = 3 * time.Second
	}
	vQuiesce() // the detector's first round finds the target
	c.Fallback(1000)
	var err error
	returned := false
	vGo("caller", func() {
		err = c.Call("S.M", nil, nil)
		returned = true
	})
	vQuiesce() // the caller parks (or is routed at once if the pause is already over); the pause may end
	if c.fallback != 0 {
		c.Close() // the pause is not over on this path: nothing to check
		return
	}
	c.detect() // the next detector round
	vQuiesce()
	vAssert(returned, "no-caller-stranded")
	if returned {
		vAssert(err == nil, "woken-after-fallback")
	}
	c.Close()
	vReach("end")
}

// zzH_C18r: recovery of a target that was down while another target's probe succeeded. Targets a, b;
// b (or both) refuse connections when the client starts; the harness drives detector rounds itself
// (c.detect, as the ticker would) so that "a round has happened since" is known: after a round in
// which a target is reachable it is in the live list again, and round-robin calls reach it.
func zzH_C18r() {
	bothDown := vChoose("both-down-at-start", 2) == 1
	rt := &zzRT{up: map[string]bool{"a": !bothDown, "b": false}}
	c := NewClient(nil)
	c.Transport = rt
	c.Scheduling = Scheduling(vChoose("policy", 3))
	vSetClockStep(1)
	vSetTimerBudget(0)
	vSetOneShotTimers(false)
	c.Update("a", "b")
	vQuiesce() // first detector round (started by Update): probes both
	live := func() int {
		c.lock.Lock()
		defer c.lock.Unlock()
		return len(c.list)
	}
	if bothDown {
		vAssert(live() == 0, "down-targets-not-live")
		rt.up["a"] = true
		c.detect()
		vQuiesce()
	}
	vAssert(live() == 1, "reachable-target-live-after-a-detector-round")
	// b recovers; one more round
	rt.up["b"] = true
	c.detect()
	vQuiesce()
	vAssert(live() == 2, "recovered-target-is-used-again")
	if c.Scheduling == RoundRobinScheduling {
		n := len(rt.calls)
		c.Call("S.M", nil, nil)
		c.Call("S.M", nil, nil)
		if len(rt.calls) == n+2 {
			vAssert(rt.calls[n] != rt.calls[n+1], "recovered-target-is-used-again")
		}
	}
	c.Close()
	vReach("end")
}

// zzH_C18x: three live targets, the cursor anywhere, then one target goes away: calls that hit it
// fail, a detector round (driven by the harness) rebuilds the shorter live list, and the calls after
// that are routed to the two remaining targets - the client neither crashes nor wedges (a panic in
// routing would leave its lock held).
func zzH_C18x() {
	rt := &zzRT{up: map[string]bool{"a": true, "b": true, "c": true}}
	c := NewClient(nil)
	c.Transport = rt
	c.Scheduling = []Scheduling{RoundRobinScheduling, LeastTimeScheduling}[vChoose("policy", 2)] // the policies with a cursor
	vSetClockStep(1)
	vSetTimerBudget(0)
	vSetOneShotTimers(false)
	c.Update("a", "b", "c")
	vQuiesce()
	if len(c.list) != 3 {
		return
	}
	for i := 0; i < vChoose("calls-before", 3); i++ {
		c.Call("S.M", nil, nil)
	}
	dead := []string{"a", "b", "c"}[vChoose("dies", 3)]
	rt.up[dead] = false
	for i := 0; i < 3; i++ {
		c.Call("S.M", nil, nil) // whichever hit the dead target failed and marked it
	}
	c.detect()
	vQuiesce()
	c.detect()
	vQuiesce()
	for i := 0; i < 3; i++ {
		n := len(rt.calls)
		err := c.Call("S.M", nil, nil)
		if len(rt.calls) == n+1 && rt.calls[n] == dead {
			// the policy never picked the dead target before the detector rounds: found out now
			continue
		}
		vAssert(err == nil && len(rt.calls) == n+1, "calls-succeed-while-another-target-is-healthy")
	}
	c.Close()
	vReach("end")
}

// zzH_C18t: a parked caller whose DialTimeout expires at the very moment it is woken (both events
// are ready when it looks), then - no target being live again - a second caller that has to wait:
// the second caller is not released by anything left over from the first; it ends with ErrTimeout
// once its own DialTimeout has elapsed (or stays parked), never at once with another error.
func zzH_C18t() {
	rt := &zzRT{up: map[string]bool{"a": false, "x": false}}
	c := NewClient(nil)
	c.Transport = rt
	vSetClockStep(1)
	vSetTimerBudget(0)
	vSetOneShotTimers(true)
	vSetTimersAnywhere(true)
	c.Update("a")
	vQuiesce()
	var e1, e2 error
	r1, r2 := false, false
	vGo("caller1", func() {
		e1 = c.Call("S.M", nil, nil)
		r1 = true
	})
	vYield()
	rt.up["a"] = true
	c.detect()
	vQuiesce()
	if r1 {
		vAssert(e1 == nil || e1 == ErrTimeout, "waiter-released-or-timed-out")
	}
	// a new target list whose only member is down: nobody is live
	c.Update("x")
	c.detect()
	vQuiesce()
	c.lock.Lock()
	empty := len(c.list) == 0
	c.lock.Unlock()
	if !empty {
		return
	}
	calls := len(rt.calls)
	vGo("caller2", func() {
		e2 = c.Call("S.M", nil, nil)
		r2 = true
	})
	vQuiesce()
	if r2 {
		vAssert(e2 == ErrTimeout && len(rt.calls) == calls, "no-live-target-caller-fails-with-ErrTimeout")
	}
	c.Close()
	vReach("end")
}

// zzH_C18s: one target dies while another recovers within the same detector round (the number of
// live targets stays the same, the set changes): afterwards calls go to the live set only, and the
// recovered target is used.
func zzH_C18s() {
	rt := &zzRT{up: map[string]bool{"a": true, "b": true, "c": false}}
	c := NewClient(nil)
	c.Transport = rt
	c.Scheduling = []Scheduling{RoundRobinScheduling, LeastTimeScheduling}[vChoose("policy", 2)]
	vSetClockStep(1)
	vSetTimerBudget(0)
	vSetOneShotTimers(false)
	c.Update("a", "b", "c")
	vQuiesce()
	if len(c.list) != 2 {
		return
	}
	rt.up["a"] = false
	for i := 0; i < 3; i++ {
		c.Call("S.M", nil, nil) // the call that hits a fails and marks it
	}
	rt.up["c"] = true
	c.detect()
	vQuiesce()
	c.detect()
	vQuiesce()
	n := len(rt.calls)
	for i := 0; i < 4; i++ {
		err := c.Call("S.M", nil, nil)
		vAssert(err == nil, "calls-succeed-while-another-target-is-healthy")
	}
	usedC := false
	for _, a := range rt.calls[n:] {
		vAssert(a != "a", "refusing-target-receives-no-calls-after-detection")
		if a == "c" {
			usedC = true
		}
	}
	if c.Scheduling == RoundRobinScheduling {
		vAssert(usedC, "recovered-target-is-used-again")
	}
	c.Close()
	vReach("end")
}
