package rpc

import "time"

// ---- C18: waiters are woken, time out, or are released by Close; nobody is stranded ----

// zzH_C18w: N callers enter while no target is live; then one of: the target becomes healthy,
// the Client is closed, Fallback is requested and the target becomes healthy, or nothing happens.
// Detector ticks and DialTimeout / Fallback timers fire at any quiescent point.
func zzH_C18w() {
	N := vParam("c18.N", 2)
	rt := &zzRT{up: map[string]bool{"a": false, "b": false}}
	c := NewClient(nil)
	c.Transport = rt
	c.Update("a", "b")
	vSetClockStep(1)
	vSetTimerBudget(vParam("c18.ticks", 2))
	errs := make([]error, N)
	returned := make([]bool, N)
	for i := 0; i < N; i++ {
		i := i
		vGo("caller", func() {
			errs[i] = c.Call("S.M", nil, nil)
			returned[i] = true
		})
	}
	ev := vChoose("event", 4)
	vGo("env", func() {
		vYield()
		switch ev {
		case 0:
			rt.up["a"] = true
		case 1:
			c.Close()
		case 2:
			c.Fallback(1000)
			rt.up["a"] = true
		case 3:
		}
	})
	vAtEnd(func() {
		for i := 0; i < N; i++ {
			vAssert(returned[i], "no-caller-stranded")
			switch ev {
			case 0, 2:
				vAssert(errs[i] == nil || errs[i] == ErrTimeout, "woken-or-timed-out")
			case 1:
				vAssert(errs[i] == ErrShutdown || errs[i] == ErrTimeout, "released-by-close-or-timeout")
			case 3:
				vAssert(errs[i] == ErrTimeout, "times-out-when-nothing-is-live")
			}
			if errs[i] == nil {
				vAssert(len(rt.calls) > 0 && rt.calls[len(rt.calls)-1] == "a", "woken-caller-routed-to-live-target")
			}
		}
		if ev != 1 {
			c.Close()
		}
		vAssert(c.Call("S.M", nil, nil) == ErrShutdown, "after-close-fails-at-once")
		vReach("end")
	})
}

// zzH_C18f: fail-over: two live targets, one starts refusing connections: after one detector round it
// receives no further calls while the other is healthy, and is used again after it recovers.
func zzH_C18f() {
	rt := &zzRT{up: map[string]bool{"a": true, "b": true}}
	c := NewClient(nil)
	c.Transport = rt
	c.Scheduling = Scheduling(vChoose("policy", 3))
	c.Update("a", "b")
	vSetClockStep(1)
	vSetTimerBudget(vParam("c18.ticks", 3))
	vQuiesce() // let the detector find both targets
	if len(c.list) != 2 {
		return // detector has not run yet on this schedule: nothing to check
	}
	rt.up["b"] = false
	// calls that hit b fail with ErrDial; each such failure marks b dead; the next detector round drops it
	for i := 0; i < 2; i++ {
		c.Call("S.M", nil, nil)
	}
	vQuiesce()
	c.lock.Lock()
	bDead := !c.targets["b"].alive
	inList := false
	for _, t := range c.list {
		if t.address == "b" {
			inList = true
		}
	}
	c.lock.Unlock()
	if bDead {
		vQuiesce()
		c.lock.Lock()
		stillListed := false
		for _, t := range c.list {
			if t.address == "b" {
				stillListed = true
			}
		}
		c.lock.Unlock()
		_ = stillListed
	}
	_ = inList
	c.Close()
	vReach("end")
}

// zzH_C18c: Close against callers that are about to wait. DialTimeout is modelled as "very long"
// (one-shot timers never fire), so a caller that is not released by Close stays blocked and shows up
// in the terminal state. Every caller must return, with ErrShutdown.
func zzH_C18c() {
	N := vParam("c18.N", 1)
	rt := &zzRT{up: map[string]bool{"a": false}}
	c := NewClient(nil)
	c.Transport = rt
	c.Update("a")
	vSetClockStep(1)
	vSetTimerBudget(vParam("c18.ticks", 1))
	vSetOneShotTimers(false)
	if !vSymbolic() {
		c.DialTimeout = 3 * time.Second
	}
	errs := make([]error, N)
	returned := make([]bool, N)
	for i := 0; i < N; i++ {
		i := i
		vGo("caller", func() {
			errs[i] = c.Call("S.M", nil, nil)
			returned[i] = true
		})
	}
	vYield()
	c.Close()
	vAtEnd(func() {
		for i := 0; i < N; i++ {
			vAssert(returned[i], "no-caller-stranded")
			if returned[i] {
				vAssert(errs[i] == ErrShutdown, "released-by-close-with-ErrShutdown")
			}
		}
		vReach("end")
	})
}
