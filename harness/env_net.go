package rpc

import (
	"errors"
	"net"
	"sync"

	"github.com/hslam/netpoll"
	"github.com/hslam/socket"
)

// Stub socket.Socket / socket.Listener / socket.Conn for harnesses that exercise Server.listen
// (accept loop, poll-mode callbacks, Server.Close). Ordinary Go; runs natively in replays.

var errZZListenerClosed = errors.New("zz: listener closed")

type zzConn struct {
	net.Conn
	m *zzMsgs
}

func (c *zzConn) Messages() socket.Messages { return c.m }
func (c *zzConn) Connection() net.Conn      { return nil }

type zzListener struct {
	mu       sync.Mutex
	conns    chan *zzConn
	closedCh chan struct{}
	closed   bool
	poll     []*zzMsgs // connections served through ServeMessages (poll mode)
	workers  int
}

func newZZListener() *zzListener {
	return &zzListener{conns: make(chan *zzConn, 4), closedCh: make(chan struct{}, 1)}
}

func (l *zzListener) Accept() (socket.Conn, error) {
	select {
	case c := <-l.conns:
		return c, nil
	case <-l.closedCh:
		return nil, errZZListenerClosed
	}
}

func (l *zzListener) Close() error {
	l.mu.Lock()
	if !l.closed {
		l.closed = true
		close(l.closedCh)
	}
	l.mu.Unlock()
	return nil
}

func (l *zzListener) Addr() net.Addr                    { return nil }
func (l *zzListener) Serve(h netpoll.Handler) error     { return nil }
func (l *zzListener) ServeData(opened func(net.Conn) error, serve func(req []byte) (res []byte)) error {
	return nil
}
func (l *zzListener) ServeConn(opened func(net.Conn) (socket.Context, error), serve func(socket.Context) error) error {
	return nil
}

// ServeMessages plays netpoll: for every scripted connection it calls opened once and then serve
// whenever the connection is readable (here: repeatedly, serve blocks in ReadMessage) until serve
// reports an error; it returns when the listener is closed.
func (l *zzListener) ServeMessages(opened func(socket.Messages) (socket.Context, error), serve func(socket.Context) error) error {
	for _, m := range l.poll {
		m := m
		ctx, err := opened(m)
		if err != nil {
			continue
		}
		nw := l.workers
		if nw < 1 {
			nw = 1
		}
		for k := 0; k < nw; k++ {
			vGo("netpoll-worker", func() {
				for {
					if err := serve(ctx); err != nil {
						return
					}
				}
			})
		}
	}
	<-l.closedCh
	return errZZListenerClosed
}

type zzSocket struct {
	lis *zzListener
}

func (s *zzSocket) Scheme() string { return "zz" }
func (s *zzSocket) Dial(address string) (socket.Conn, error) {
	return nil, errors.New("zz: dial not available")
}
func (s *zzSocket) Listen(address string) (socket.Listener, error) { return s.lis, nil }

type socket_Messages = socket.Messages
