package rpc

import (
	"crypto/tls"

	"github.com/hslam/socket"
)

// ---- C12 (projection): Options resolve to matching codecs on both ends ----

func zzCodecKind(c Codec) int {
	switch c.(type) {
	case nil:
		return 0
	case *JSONCodec:
		return 1
	case *zzBytesCodec:
		return 2
	case *BYTESCodec:
		return 3
	case *GOGOPBCodec:
		return 4
	case *CODECodec:
		return 5
	}
	return 99
}

func zzEncoderKind(e Encoder) int {
	switch e.(type) {
	case nil:
		return 0
	case *PBEncoder:
		return 1
	case *CODEEncoder:
		return 2
	case *JSONEncoder:
		return 3
	}
	return 99
}

// zzH_C12opt: for every Options value from the menu (codec / header-encoder given by registered name,
// by unregistered name with a constructor, by constructor only, or both) DialWithOptions and
// ListenWithOptions build codecs of the same body-codec and header-encoder types; a registered name
// wins over a constructor on both ends.
func zzH_C12opt() {
	RegisterCodec("zzb", func() Codec { return &zzBytesCodec{} })
	lis := newZZListener()
	cm := newZZMsgs(4)
	sockCtor := func(*tls.Config) socket.Socket { return &zzDialSocket{zzSocket{lis: lis}, cm} }
	RegisterSocket("zznet", sockCtor)
	opts := &Options{}
	switch vChoose("network", 3) {
	case 0:
		opts.Network = "zznet"
	case 1:
		opts.NewSocket = sockCtor
	case 2:
		opts.Network = "zznet"
		opts.NewSocket = func(*tls.Config) socket.Socket { return nil } // must lose against the name
	}
	wantCodec, wantEnc := 0, 0
	switch vChoose("codec", 5) {
	case 0:
		opts.Codec = "zzb"
		wantCodec = 2
	case 1:
		opts.NewCodec = func() Codec { return &BYTESCodec{} }
		wantCodec = 3
	case 2:
		opts.Codec = "zzb"
		opts.NewCodec = func() Codec { return &BYTESCodec{} }
		wantCodec = 2 // the registered name wins
	case 3:
		opts.Codec = "not-registered"
		opts.NewCodec = func() Codec { return &BYTESCodec{} }
		wantCodec = 3
	case 4:
		opts.Codec = "json"
		wantCodec = 1
	}
	switch vChoose("encoder", 5) {
	case 0:
	case 1:
		opts.HeaderEncoder = "pb"
		wantEnc = 1
	case 2:
		opts.NewHeaderEncoder = NewCODEEncoder
		wantEnc = 2
	case 3:
		opts.HeaderEncoder = "code"
		opts.NewHeaderEncoder = NewPBEncoder
		wantEnc = 2 // the registered name wins
	case 4:
		opts.HeaderEncoder = "not-registered"
		opts.NewHeaderEncoder = NewPBEncoder
		wantEnc = 1
	}
	opts.ClientBufferSize = []int{0, 16, 100000}[vChoose("bufsize", 3)]
	s := NewServer()
	s.SetLogLevel(OffLogLevel)
	sm := newZZMsgs(4)
	lis.conns <- &zzConn{m: sm}
	var listenErr error
	vGo("listen", func() { listenErr = s.ListenWithOptions("zz", opts) })
	conn, err := DialWithOptions("zz", opts)
	vAssert(err == nil && conn != nil, "dial-ok")
	vQuiesce()
	cc, ok := conn.codec.(*clientCodec)
	vAssert(ok, "client-codec-built")
	var sc *serverCodec
	s.mutex.RLock()
	for c := range s.codecs {
		sc, _ = c.(*serverCodec)
	}
	s.mutex.RUnlock()
	vAssert(sc != nil, "server-codec-built")
	vAssert(zzCodecKind(cc.bodyCodec) == wantCodec, "client-body-codec-as-documented")
	vAssert(zzCodecKind(sc.bodyCodec) == wantCodec, "server-body-codec-as-documented")
	vAssert(zzEncoderKind(cc.headerEncoder) == wantEnc, "client-header-encoder-as-documented")
	vAssert(zzEncoderKind(sc.headerEncoder) == wantEnc, "server-header-encoder-as-documented")
	s.Close()
	conn.Close()
	sm.Close()
	vAtEnd(func() {
		_ = listenErr
		vReach("end")
	})
}

// zzDialSocket is zzSocket plus a Dial that hands out one scripted connection.
type zzDialSocket struct {
	zzSocket
	m *zzMsgs
}

func (s *zzDialSocket) Dial(address string) (socket.Conn, error) { return &zzConn{m: s.m}, nil }
