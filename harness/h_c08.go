package rpc

import "io"

// ---- C08: nothing a peer does can crash the process ----

// zzH_C08dec: every header decoder on every frame of length 0..N (all bytes symbolic). An
// unrecovered panic on any path is the violation (the engine reports it with the panic site).
func zzH_C08dec() {
	n := vParam("c08.N", 4)
	data := vBytes("frame", n)
	switch vChoose("decoder", 5) {
	case 0:
		vTag("sig:pbRequest")
		(&pbRequest{}).Unmarshal(data)
	case 1:
		vTag("sig:pbResponse")
		(&pbResponse{}).Unmarshal(data)
	case 2:
		vTag("sig:codeRequest")
		(&request{}).Unmarshal(data)
	case 3:
		vTag("sig:codeResponse")
		(&response{}).Unmarshal(data)
	case 4:
		vTag("sig:upgrade")
		(&upgrade{}).Unmarshal(data)
	}
	vReach("end")
}

// zzH_C08srv: server dispatch on a well-formed request whose upgrade byte, method and arguments
// are adversarial; afterwards a well-formed probe must still be served correctly.
func zzH_C08srv() {
	log := &zzLog{}
	mode := vChoose("mode", 3)
	s, _ := zzNewServer(log, mode == 2, mode == 1, false, false)
	m := newZZMsgs(8)
	m.yieldW = false
	codec := NewServerCodec(&zzBytesCodec{}, nil, m, true, 64)
	upg := vByte("upgrade")
	var upgB []byte
	if vChoose("hasupg", 2) == 1 {
		upgB = []byte{upg}
	}
	method := []string{"S.Echo", "S.EchoRet", "S.EchoCtx", "S.Fail", "S.Watch", "S.Nope", ""}[vChoose("method", 7)]
	args := vBytes("args", 1)
	vGo("server", func() { s.ServeCodec(codec) })
	m.deliver(zzRequest(7, upgB, method, args))
	vQuiesce()
	m.deliver(zzRequest(9, nil, "S.Echo", []byte{0x11}))
	vQuiesce()
	m.fail(io.EOF)
	vAtEnd(func() {
		// the probe (seq 9) was answered exactly once with its own reply
		n := 0
		for _, r := range zzDecodeResponses(m) {
			if r.Seq == 9 {
				n++
				vAssert(r.Error == "" && vEqBytes(r.Reply, []byte{0x52, 0x11}), "probe-reply")
			}
		}
		vAssert(n == 1, "probe-answered-once")
		vReach("end")
	})
}
