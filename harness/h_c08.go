package rpc

import "io"

// ---- C08: nothing a peer does can crash the process ----

// zzH_C08dec: every header decoder on every frame of length 0..N (all bytes symbolic). An
// unrecovered panic on any path is the violation (the engine reports it with the panic site).
func zzH_C08dec() {
	n := vParam("c08.N", 4)
	data := vBytes("frame", n)
	switch vChoose("decoder", 5) {
	case 0:
		vTag("sig:pbRequest")
		(&pbRequest{}).Unmarshal(data)
	case 1:
		vTag("sig:pbResponse")
		(&pbResponse{}).Unmarshal(data)
	case 2:
		vTag("sig:codeRequest")
		(&request{}).Unmarshal(data)
	case 3:
		vTag("sig:codeResponse")
		(&response{}).Unmarshal(data)
	case 4:
		vTag("sig:upgrade")
		(&upgrade{}).Unmarshal(data)
	}
	vReach("end")
}

// zzH_C08srv: server dispatch on a well-formed request whose upgrade byte, method and arguments
// are adversarial; afterwards a well-formed probe must still be served correctly.
func zzH_C08srv() {
	log := &zzLog{}
	mode := vChoose("mode", 3)
	s, _ := zzNewServer(log, mode == 2, mode == 1, false, false)
	m := newZZMsgs(8)
	m.yieldW = false
	codec := NewServerCodec(&zzBytesCodec{}, nil, m, true, 64)
	upg := vByte("upgrade")
	var upgB []byte
	if vChoose("hasupg", 2) == 1 {
		upgB = []byte{upg}
	}
	method := []string{"S.Echo", "S.EchoRet", "S.EchoCtx", "S.Fail", "S.Watch", "S.Nope", ""}[vChoose("method", 7)]
	args := vBytes("args", 1)
	vGo("server", func() { s.ServeCodec(codec) })
	m.deliver(zzRequest(7, upgB, method, args))
	vQuiesce()
	m.deliver(zzRequest(9, nil, "S.Echo", []byte{0x11}))
	vQuiesce()
	m.fail(io.EOF)
	vAtEnd(func() {
		// the probe (seq 9) was answered exactly once with its own reply
		n := 0
		for _, r := range zzDecodeResponses(m) {
			if r.Seq == 9 {
				n++
				vAssert(r.Error == "" && vEqBytes(r.Reply, []byte{0x52, 0x11}), "probe-reply")
			}
		}
		vAssert(n == 1, "probe-answered-once")
		vReach("end")
	})
}

// zzH_C08seq: sequences of well-formed frames of every kind a peer can send — calls, pings and the
// three stream frames, naming known, unknown and non-stream methods and known or unknown stream ids —
// followed by a probe and the disconnect: no panic, the probe is answered.
func zzH_C08seq() {
	n := vParam("seq.N", 2)
	log := &zzLog{}
	mode := vChoose("mode", 3)
	s, _ := zzNewServer(log, mode == 2, mode == 1, false, false)
	m := newZZMsgs(8)
	m.yieldW = false
	codec := NewServerCodec(&zzBytesCodec{}, nil, m, true, 64)
	vGo("server", func() { s.ServeCodec(codec) })
	burst := vChoose("burst", 2) == 1 // frames arrive back to back (queued behind one another) or one at a time
	if burst {
		// a stream is open before the burst, so that stream frames in it have something to hit
		m.deliver(zzRequest(5, zzUpgBytes(zzUpgOpenStream), "S.Watch", nil))
		vQuiesce()
	}
	for i := 0; i < n; i++ {
		seq := uint64(5 + vChoose("seq", 2))
		switch vChoose("frame", 7) {
		case 0:
			m.deliver(zzRequest(seq, nil, "S.Echo", []byte{0x41}))
		case 1:
			m.deliver(zzRequest(seq, zzUpgBytes(zzUpgPing), "", nil))
		case 2:
			m.deliver(zzRequest(seq, zzUpgBytes(zzUpgOpenStream), "S.Watch", nil))
		case 3:
			m.deliver(zzRequest(seq, zzUpgBytes(zzUpgOpenStream), "S.Nope", nil))
		case 4:
			m.deliver(zzRequest(seq, zzUpgBytes(zzUpgOpenStream), "S.Echo", nil))
		case 5:
			m.deliver(zzRequest(seq, zzUpgBytes(zzUpgStreaming), "", []byte{0x42}))
		case 6:
			m.deliver(zzRequest(seq, zzUpgBytes(zzUpgCloseStream), "", nil))
		}
		if !burst {
			vQuiesce()
		}
	}
	vQuiesce()
	m.deliver(zzRequest(9, nil, "S.Echo", []byte{0x11}))
	vQuiesce()
	m.fail(io.EOF)
	vAtEnd(func() {
		cnt := 0
		for _, r := range zzDecodeResponses(m) {
			if r.Seq == 9 {
				cnt++
				vAssert(r.Error == "" && vEqBytes(r.Reply, []byte{0x52, 0x11}), "probe-reply")
			}
		}
		vAssert(cnt == 1, "probe-answered-once")
		// whatever the peer sent, once it is gone the connection is torn down: ServeCodec has returned and
		// every stream handler it started has been released
		vAssert(vBlocked() == 0, "teardown-completes-after-any-frame-sequence")
		vReach("end")
	})
}

// zzH_C08big: frames with long varints: a tag byte, a varint of 1..10 bytes with symbolic payload
// bits (so lengths up to 2^64-1, including values whose sum with an offset wraps), and up to two
// more bytes. Every header decoder must return without an unrecovered panic.
func zzH_C08big() {
	k := 1 + vChoose("varint-bytes", 10)
	tail := vChoose("tail", 3)
	data := make([]byte, 0, 16)
	data = append(data, vByte("tag"))
	for i := 0; i < k; i++ {
		b := vByte("v")
		if i < k-1 {
			vAssume(b >= 0x80)
		} else {
			vAssume(b < 0x80)
		}
		data = append(data, b)
	}
	for i := 0; i < tail; i++ {
		data = append(data, vByte("t"))
	}
	frame := append([]byte(nil), data...) // capacity = length: nothing beyond the frame
	switch vChoose("decoder", 4) {
	case 0:
		vTag("sig:pbRequest")
		(&pbRequest{}).Unmarshal(frame)
	case 1:
		vTag("sig:pbResponse")
		(&pbResponse{}).Unmarshal(frame)
	case 2:
		vTag("sig:codeRequest")
		(&request{}).Unmarshal(frame[1:])
	case 3:
		vTag("sig:codeResponse")
		(&response{}).Unmarshal(frame[1:])
	}
	vReach("end")
}
