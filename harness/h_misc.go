package rpc

import (
	"io"

	"github.com/hslam/socket"
)

// zzH_C06w: a request whose body cannot be encoded fails only that call and leaves no residue.
func zzH_C06w() {
	m := newZZMsgs(8)
	m.out = make(chan []byte, 8)
	conn := NewConnWithCodec(NewClientCodec(&zzBytesCodec{}, nil, m, 64))
	switch vChoose("mode", 3) {
	case 1:
		conn.directIO = true
	case 2:
		conn.SetPipelining(true)
	}
	good := []byte{0x61}
	var r1, r2 []byte
	d1, d2 := make(chan *Call, 2), make(chan *Call, 2)
	before := conn.NumCalls()
	c1 := conn.Go("S.Echo", &good, &r1, d1)
	bad := 42 // not a *[]byte: the body codec reports an error
	c2 := conn.Go("S.Echo", bad, &r2, d2)
	vQuiesce()
	vAssert(len(d2) == 1 && c2.Error != nil && c2.Error.Error() == "is not *[]byte", "unencodable-request-fails-with-codec-error")
	vAssert(conn.NumCalls() == before+1, "failed-request-not-counted-as-outstanding")
	vAssert(len(m.writes) == 1, "nothing-written-for-failed-request")
	f := <-m.out
	var rq pbRequest
	rq.Unmarshal(f)
	m.deliver(zzResponse(rq.Seq, "", zzReplyFor(rq.Args)))
	vQuiesce()
	vAssert(len(d1) == 1 && c1.Error == nil && vEqBytes(r1, zzReplyFor(good)), "neighbour-call-unaffected")
	vAssert(conn.NumCalls() == before, "no-residue")
	m.fail(io.EOF)
	vReach("end")
}

// zzH_C08cli: the client reader on an arbitrary frame (all bytes symbolic, length 0..N) with a call
// outstanding; a well-formed response afterwards still completes the call with its own reply.
func zzH_C08cli() {
	n := vParam("c08.N", 3)
	m := newZZMsgs(8)
	m.out = make(chan []byte, 8)
	var enc Encoder
	switch vChoose("encoder", 3) {
	case 1:
		enc = NewHeaderEncoder("pb")()
		vTag("sig:enc=pb")
	case 2:
		enc = NewHeaderEncoder("code")()
		vTag("sig:enc=code")
	}
	conn := NewConnWithCodec(NewClientCodec(&zzBytesCodec{}, enc, m, 64))
	conn.SetBufferSize(8) // small read buffers: a decoded length can exceed the capacity (stated bound)
	if vChoose("directIO", 2) == 1 {
		conn.directIO = true
	}
	a := []byte{0x61}
	var r []byte
	d := make(chan *Call, 2)
	c := conn.Go("S.Echo", &a, &r, d)
	f := <-m.out
	_ = f
	evil := vBytes("frame", n)
	// the adversarial frame must not name the outstanding call's sequence number with a valid
	// response (that would be a legitimate answer); sequence numbers other than 0 are used for that
	m.deliver(evil)
	vQuiesce()
	if len(d) == 0 {
		// still outstanding: a well-formed response completes it
		var good []byte
		if enc == nil {
			good = zzResponse(0, "", zzReplyFor(a))
		} else {
			res := enc.NewResponse()
			res.SetSeq(0)
			res.SetReply(zzReplyFor(a))
			good, _ = enc.NewCodec().Marshal(nil, res)
		}
		m.deliver(good)
		vQuiesce()
		vAssert(len(d) == 1 && c.Error == nil && vEqBytes(r, zzReplyFor(a)), "well-formed-response-still-served")
	}
	m.fail(io.EOF)
	vReach("end")
}

// zzH_C08down: a burst of well-formed requests followed at once by the peer's disconnect, handlers
// that take time, every server mode: the teardown must not panic and every goroutine must exit.
func zzH_C08down() {
	n := vParam("down.N", 2)
	log := &zzLog{}
	s, svc := zzNewServer(log, vChoose("pipelining", 2) == 1, vChoose("directIO", 2) == 1, false, false)
	svc.yield = true
	m := newZZMsgs(8)
	codec := NewServerCodec(&zzBytesCodec{}, nil, m, true, 64)
	for i := 0; i < n; i++ {
		m.deliver(zzRequest(uint64(i+1), nil, "S.Echo", []byte{byte(0x41 + i)}))
	}
	m.fail(io.EOF)
	vGo("server", func() { s.ServeCodec(codec) })
	vAtEnd(func() {
		vAssert(vBlocked() == 0, "every-goroutine-exits")
		vAssert(m.nCloses >= 1, "codec-closed")
		vReach("end")
	})
}

// zzChunkConn is an io.ReadWriteCloser whose Read hands out the byte stream in chunks of
// harness-chosen sizes (every fragmentation of the stream).
type zzChunkConn struct {
	stream []byte
	pos    int
}

func (c *zzChunkConn) Read(p []byte) (int, error) {
	if c.pos >= len(c.stream) {
		return 0, io.EOF
	}
	rest := len(c.stream) - c.pos
	n := 1 + vChoose("chunk", rest)
	if n > len(p) {
		n = len(p)
	}
	copy(p, c.stream[c.pos:c.pos+n])
	c.pos += n
	return n, nil
}
func (c *zzChunkConn) Write(p []byte) (int, error) {
	c.stream = append(c.stream, p...)
	return len(p), nil
}
func (c *zzChunkConn) Close() error { return nil }

// zzH_FRAM: the real framing layer (hslam/socket messages): two frames written with WriteMessage are
// returned by ReadMessage exactly, for every fragmentation of the byte stream.
func zzH_FRAM() {
	cc := &zzChunkConn{}
	w := socket.NewMessages(cc, false)
	f1 := vBytesN("f1", vChoose("len1", 3))
	f2 := vBytesN("f2", 1+vChoose("len2", 2))
	vAssert(w.WriteMessage(f1) == nil && w.WriteMessage(f2) == nil, "write-ok")
	r := socket.NewMessages(cc, false)
	buf := make([]byte, 2)
	g1, err := r.ReadMessage(buf)
	vAssert(err == nil && vEqBytes(g1, f1), "first-frame-exact")
	g1copy := append([]byte(nil), g1...)
	g2, err := r.ReadMessage(nil)
	vAssert(err == nil && vEqBytes(g2, f2), "second-frame-exact")
	vAssert(vEqBytes(g1copy, f1), "first-frame-content")
	_, err = r.ReadMessage(nil)
	vAssert(err == io.EOF, "then-eof")
	vReach("end")
}

// zzSlowCodec is zzBytesCodec whose Marshal takes time (yields) before it returns.
type zzSlowCodec struct{ zzBytesCodec }

func (c *zzSlowCodec) Marshal(buf []byte, v interface{}) ([]byte, error) {
	vYield()
	return c.zzBytesCodec.Marshal(buf, v)
}

// zzH_C06x: a request whose body cannot be encoded fails while another call registers and is
// written in the meantime; a third call follows while the second is still outstanding. The failure
// must leave no residue in the sequence-number allocation either: the second and third call each get
// their own reply.
func zzH_C06x() {
	m := newZZMsgs(8)
	m.out = make(chan []byte, 8)
	conn := NewConnWithCodec(NewClientCodec(&zzSlowCodec{}, nil, m, 64))
	switch vChoose("mode", 2) {
	case 1:
		conn.directIO = true
	}
	var ra, rb, rc []byte
	da, db, dc := make(chan *Call, 2), make(chan *Call, 2), make(chan *Call, 2)
	var ca *Call
	vGo("bad-caller", func() { ca = conn.Go("S.Echo", 42, &ra, da) })
	vYield() // either caller may register first
	b := []byte{0x62}
	cb := conn.Go("S.Echo", &b, &rb, db)
	vQuiesce()
	c := []byte{0x63}
	cc := conn.Go("S.Echo", &c, &rc, dc)
	vQuiesce()
	vAssert(len(m.writes) == 2, "two-requests-written")
	for i := 0; i < 2; i++ {
		f := <-m.out
		var rq pbRequest
		rq.Unmarshal(f)
		m.deliver(zzResponse(rq.Seq, "", zzReplyFor(rq.Args)))
	}
	vQuiesce()
	vAssert(ca != nil && len(da) == 1 && ca.Error != nil, "unencodable-request-fails-with-codec-error")
	vAssert(len(db) == 1 && cb.Error == nil && vEqBytes(rb, zzReplyFor(b)), "neighbour-call-unaffected")
	vAssert(len(dc) == 1 && cc.Error == nil && vEqBytes(rc, zzReplyFor(c)), "later-call-unaffected")
	vAssert(conn.NumCalls() == 0, "no-residue")
	m.fail(io.EOF)
	vReach("end")
}
