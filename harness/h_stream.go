package rpc

import "io"

// ---- streams: C09 (delivery), C10 (shutdown), C11 (stream messages are not mutated) ----

// zzH_STRc: client side. The opener calls NewStream and then reads; the environment plays a server
// that acknowledges the open request and pushes N messages (symbolic contents), without waiting for
// the client between the acknowledgement and the first push (a real server does not wait either);
// afterwards the client closes the stream or the connection ends.
func zzH_STRc() {
	N := vParam("str.N", 2)
	m := newZZMsgs(8)
	m.out = make(chan []byte, 8)
	conn := NewConnWithCodec(NewClientCodec(&zzBytesCodec{}, nil, m, 64))
	switch vChoose("directIO", 2+vParam("str.pipelining", 1)) {
	case 1:
		conn.directIO = true
	case 2:
		conn.SetPipelining(true)
	}
	sent := make([][]byte, N)
	for i := range sent {
		sent[i] = vBytesN("msg", 2)
	}
	var got [][]byte
	var gotErr []error
	var openErr error
	ending := vChoose("ending", 3) // 0: client closes the stream, 1: peer EOF, 2: client closes the connection
	opened := false
	var st Stream
	// strict: the environment lets the client settle before the stream/connection ends, so every
	// message pushed must have been delivered; otherwise (the end follows the last push at once) only
	// freedom from hanging is asserted
	strict := true
	twoReaders := vParam("str.readers", 1) == 2 && vChoose("two-readers", 2) == 1
	var r2err error
	r2done := false
	startR2 := make(chan struct{}, 1)
	vGo("opener", func() {
		var err error
		st, err = conn.NewStream("S.Watch")
		openErr = err
		if err != nil {
			return
		}
		opened = true
		if twoReaders {
			// a second goroutine blocked in ReadMessage on the same stream (it starts reading once
			// the pushed messages have been consumed by the first reader)
			vGo("reader2", func() {
				<-startR2
				var msg []byte
				r2err = st.ReadMessage(nil, &msg)
				r2done = true
			})
		}
		for i := 0; i < N+2; i++ {
			var msg []byte
			e := st.ReadMessage(nil, &msg)
			gotErr = append(gotErr, e)
			if e != nil {
				break
			}
			got = append(got, msg)
			if len(got) == N {
				startR2 <- struct{}{} // the pushed messages are consumed: the second reader may block now
			}
		}
		if len(got) < N {
			startR2 <- struct{}{}
		}
		// after shutdown every later operation fails with ErrStreamShutdown
		var msg []byte
		e1 := st.ReadMessage(nil, &msg)
		e2 := st.WriteMessage(&msg)
		if strict {
			vAssert(e1 == ErrStreamShutdown, "read-after-shutdown")
			vAssert(e2 == ErrStreamShutdown, "write-after-shutdown")
		}
	})
	f := <-m.out
	var open pbRequest
	open.Unmarshal(f)
	vAssert(len(open.Upgrade) == 1 && open.Upgrade[0] == zzUpgOpenStream, "open-request-flags")
	if vChoose("cut-before-ack", 2) == 1 {
		// the connection ends between the open request and its acknowledgement: NewStream must
		// return an error instead of hanging
		if vChoose("cut-kind", 2) == 0 {
			m.fail(io.EOF)
		} else {
			conn.Close()
		}
		vAtEnd(func() {
			vAssert(vBlocked() == 0, "reader-unblocked")
			vAssert(openErr != nil && !opened, "open-fails-when-connection-ends-first")
			vReach("end")
		})
		return
	}
	m.deliver(zzResponse(open.Seq, "", nil)) // acknowledgement
	if vChoose("wait-after-ack", 2) == 1 {
		vQuiesce()
	}
	for i := 0; i < N; i++ {
		m.deliver(zzResponse(open.Seq, "", sent[i]))
	}
	var extra []byte
	paused := vChoose("pause-before-end", 2) == 1
	if ending == 0 {
		paused = true
	}
	strict = paused
	if paused {
		vQuiesce()
	} else if ending == 0 {
		vQuiesce() // the client needs the stream handle before it can close it
	}
	if st != nil && vParam("str.badwrite", 1) == 1 && vChoose("bad-write", 2) == 1 {
		// a stream message that cannot be encoded: the write fails inside WriteRequest, the stream
		// and the connection stay up
		st.WriteMessage(42)
		vQuiesce()
		good := []byte{0x77}
		st.WriteMessage(&good)
		vQuiesce()
		// the failed write must not cut the stream's receive direction either
		extra = vBytesN("extra", 2)
		m.deliver(zzResponse(open.Seq, "", extra))
		vQuiesce()
	}
	switch ending {
	case 0:
		// the opener is blocked in its (N+1)th ReadMessage; a client-side Close must unblock it
		if st != nil {
			var closeErr error
			closed := false
			vGo("closer", func() {
				closeErr = st.Close()
				closed = true
			})
			var cl pbRequest
			for {
				f := <-m.out
				cl = pbRequest{}
				cl.Unmarshal(f)
				if len(cl.Upgrade) == 1 && cl.Upgrade[0] == zzUpgStreaming {
					continue // the good stream message written above
				}
				break
			}
			vAssert(len(cl.Upgrade) == 1 && cl.Upgrade[0] == zzUpgCloseStream && cl.Seq == open.Seq, "close-request-flags")
			m.deliver(zzResponse(cl.Seq, "", nil))
			vQuiesce()
			vAssert(closed && closeErr == nil, "stream-close-returns")
			// the connection is still usable for a unary call after closing one stream
			a := []byte{0x44}
			var r []byte
			done := make(chan *Call, 1)
			c := conn.Go("S.Echo", &a, &r, done)
			f = <-m.out
			var rq pbRequest
			rq.Unmarshal(f)
			m.deliver(zzResponse(rq.Seq, "", zzReplyFor(rq.Args)))
			vQuiesce()
			vAssert(len(done) == 1 && c.Error == nil && vEqBytes(r, zzReplyFor(a)), "unary-call-after-stream-close")
		}
		m.fail(io.EOF)
	case 1:
		m.fail(io.EOF)
	case 2:
		conn.Close()
	}
	vAtEnd(func() {
		vAssert(vBlocked() == 0, "reader-unblocked")
		if twoReaders && opened {
			vAssert(r2done && r2err == ErrStreamShutdown, "blocked-read-returns-shutdown")
		}
		if !strict {
			vReach("end")
			return
		}
		vAssert(openErr == nil && opened, "stream-opened")
		if ending != 0 {
			vAssert(len(gotErr) > 0 && gotErr[len(gotErr)-1] == ErrStreamShutdown, "blocked-read-returns-shutdown")
		}
		// every message that was delivered is the one that was sent, in order, none lost
		if extra != nil {
			vAssert(len(got) == N+1 && vEqBytes(got[N], extra), "message-after-failed-write-delivered")
		} else {
			vAssert(len(got) == N, "all-messages-delivered")
		}
		for i := 0; i < len(got) && i < N; i++ {
			vAssert(vEqBytes(got[i], sent[i]), "messages-in-order-unmodified")
		}
		vReach("end")
	})
}

// zzH_STRs: server side. The Watch handler writes W messages and reads R messages in a chosen order;
// the environment (a correct client) opens the stream, sends R streaming frames and then closes the
// stream or disconnects; poll and non-poll modes.
func zzH_STRs() {
	W := vParam("str.W", 1)
	R := vParam("str.R", 1)
	log := &zzLog{}
	poll := vChoose("poll", 2) == 1
	directIO := vChoose("directIO", 2) == 1
	noCopy := vParam("str.nocopy", 1) == 1 && vChoose("noCopy", 2) == 1
	s, svc := zzNewServer(log, false, directIO, noCopy, false)
	s.poll = poll
	out := make([][]byte, W)
	for i := range out {
		out[i] = vBytesN("push", 2)
	}
	in := make([][]byte, R)
	for i := range in {
		in[i] = vBytesN("msg", 2)
	}
	var hGot [][]byte
	var hErrs []error
	handlerDone := false
	writeFirst := vChoose("handler-writes-first", 2) == 1
	badPush := vParam("str.badpush", 1) == 1 && vChoose("handler-bad-write", 2) == 1
	svc.streamFn = func(st *ZZStream) {
		if badPush {
			st.s.WriteMessage(42) // a value the body codec cannot encode: this write fails, nothing else
		}
		write := func() {
			for i := 0; i < W; i++ {
				st.s.WriteMessage(&out[i])
			}
		}
		if writeFirst {
			write()
		}
		for i := 0; i < R+1; i++ {
			var msg []byte
			e := st.s.ReadMessage(nil, &msg)
			hErrs = append(hErrs, e)
			if e != nil {
				break
			}
			hGot = append(hGot, msg)
		}
		if !writeFirst {
			write()
		}
		handlerDone = true
	}
	m := newZZMsgs(8)
	lis := newZZListener()
	if poll {
		lis.poll = []*zzMsgs{m}
	} else {
		lis.conns <- &zzConn{m: m}
	}
	vGo("listen", func() {
		s.listen(&zzSocket{lis: lis}, "zz", func(messages socket_Messages) ServerCodec {
			return NewServerCodec(&zzBytesCodec{}, nil, messages, s.directIO, 64)
		})
	})
	m.deliver(zzRequest(5, zzUpgBytes(zzUpgOpenStream), "S.Watch", nil))
	vQuiesce()
	for i := 0; i < R; i++ {
		m.deliver(zzRequest(5, zzUpgBytes(zzUpgStreaming), "", in[i]))
	}
	vQuiesce()
	// an ordinary call on the same connection is unaffected by whatever happened on the stream
	m.deliver(zzRequest(9, nil, "S.Echo", []byte{0x33}))
	vQuiesce()
	ending := vChoose("ending", 2)
	if ending == 0 {
		m.deliver(zzRequest(5, zzUpgBytes(zzUpgCloseStream), "", nil))
		vQuiesce()
		// the close-stream request alone (the connection is still up) releases the handler
		vAssert(handlerDone, "handler-returns-after-stream-close")
	}
	m.fail(io.EOF)
	vQuiesce()
	s.Close()
	vAtEnd(func() {
		vAssert(handlerDone, "handler-returns-after-stream-or-connection-end")
		vAssert(len(hGot) == R, "handler-received-every-message")
		for i := 0; i < len(hGot) && i < R; i++ {
			vAssert(vEqBytes(hGot[i], in[i]), "handler-messages-in-order-unmodified")
		}
		// wire: one acknowledgement for the open request, then the pushes in order
		res := zzDecodeResponses(m)
		var pushes [][]byte
		acks := 0
		probes := 0
		for _, r := range res {
			if r.Seq == 9 {
				probes++
				vAssert(r.Error == "" && vEqBytes(r.Reply, []byte{0x52, 0x33}), "unary-call-unaffected-by-streams")
			}
		}
		vAssert(probes == 1, "unary-call-unaffected-by-streams")
		for i, r := range res {
			if r.Seq == 9 {
				continue
			}
			if r.Seq == 5 && len(r.Reply) == 0 {
				acks++
				if len(pushes) == 0 {
					_ = i
				}
			} else if r.Seq == 5 {
				pushes = append(pushes, r.Reply)
			}
		}
		if writeFirst || ending == 0 {
			vAssert(len(pushes) == W || !writeFirst, "pushes-written")
		}
		for i := 0; i < len(pushes) && i < W; i++ {
			vAssert(vEqBytes(pushes[i], out[i]), "pushes-in-order-unmodified")
		}
		if len(res) > 0 && writeFirst && W > 0 && !badPush {
			vAssert(res[0].Seq == 5 && len(res[0].Reply) == 0, "ack-precedes-first-push")
		}
		vAssert(vBlocked() == 0, "no-goroutine-left")
		vReach("end")
	})
}

// zzH_C11c: client side, default (queued) mode: N stream messages arrive one at a time (the
// environment yields between them, so the frame reader, the decode worker and the stream delivery
// worker interleave in every order) while pooled read buffers are recycled LIFO; what ReadMessage
// hands to the application must be exactly what was pushed, in order.
func zzH_C11c() {
	N := vParam("c11c.N", 3)
	vSetPoolReuse(true)
	m := newZZMsgs(8)
	m.out = make(chan []byte, 8)
	conn := NewConnWithCodec(NewClientCodec(&zzBytesCodec{}, nil, m, 64))
	sent := make([][]byte, N)
	for i := range sent {
		sent[i] = vBytesN("msg", 2)
	}
	var got [][]byte
	vGo("reader", func() {
		st, err := conn.NewStream("S.Watch")
		if err != nil {
			return
		}
		for i := 0; i < N; i++ {
			var msg []byte
			if st.ReadMessage(nil, &msg) != nil {
				return
			}
			got = append(got, msg)
		}
	})
	f := <-m.out
	var open pbRequest
	open.Unmarshal(f)
	m.deliver(zzResponse(open.Seq, "", nil))
	vQuiesce()
	for i := 0; i < N; i++ {
		m.deliver(zzResponse(open.Seq, "", sent[i]))
		vYield()
	}
	vQuiesce()
	m.fail(io.EOF)
	vAtEnd(func() {
		vAssert(len(got) == N, "all-messages-delivered")
		for i := 0; i < len(got) && i < N; i++ {
			vAssert(vEqBytes(got[i], sent[i]), "messages-in-order-unmodified")
		}
		vReach("end")
	})
}

// zzH_STR2: two streams and a unary call share one connection; the environment interleaves pushes for
// both streams and the unary reply; each stream reader must get exactly its own messages in order and
// the unary call its own reply.
func zzH_STR2() {
	m := newZZMsgs(8)
	m.out = make(chan []byte, 8)
	conn := NewConnWithCodec(NewClientCodec(&zzBytesCodec{}, nil, m, 64))
	if vChoose("directIO", 2) == 1 {
		conn.directIO = true
	}
	sent := [2][][]byte{}
	for s := 0; s < 2; s++ {
		for i := 0; i < 2; i++ {
			sent[s] = append(sent[s], append([]byte{byte(0xA0 + s)}, vBytesN("msg", 1)...))
		}
	}
	var got [2][][]byte
	var seqs [2]uint64
	opened := [2]bool{}
	for s := 0; s < 2; s++ {
		s := s
		vGo("reader", func() {
			st, err := conn.NewStream("S.Watch")
			if err != nil {
				return
			}
			opened[s] = true
			for i := 0; i < 2; i++ {
				var msg []byte
				if st.ReadMessage(nil, &msg) != nil {
					return
				}
				got[s] = append(got[s], msg)
			}
		})
		// acknowledge this stream's open request before the next stream is opened, so that the
		// harness knows which sequence number belongs to which reader
		f := <-m.out
		var open pbRequest
		open.Unmarshal(f)
		seqs[s] = open.Seq
		m.deliver(zzResponse(open.Seq, "", nil))
		vQuiesce()
	}
	a := []byte{0x55}
	var r []byte
	done := make(chan *Call, 1)
	c := conn.Go("S.Echo", &a, &r, done)
	f := <-m.out
	var rq pbRequest
	rq.Unmarshal(f)
	// interleavings of the five frames that keep each stream's own order
	order := [][]int{{0, 1, 2, 0, 1}, {1, 0, 2, 1, 0}, {0, 0, 1, 1, 2}, {2, 1, 1, 0, 0}, {1, 2, 0, 1, 0}}[vChoose("order", 5)]
	next := [2]int{}
	for _, who := range order {
		if who == 2 {
			m.deliver(zzResponse(rq.Seq, "", zzReplyFor(rq.Args)))
		} else {
			m.deliver(zzResponse(seqs[who], "", sent[who][next[who]]))
			next[who]++
		}
	}
	vQuiesce()
	m.fail(io.EOF)
	vAtEnd(func() {
		for s := 0; s < 2; s++ {
			vAssert(opened[s], "stream-opened")
			vAssert(len(got[s]) == 2, "all-messages-delivered")
			for i := 0; i < len(got[s]) && i < 2; i++ {
				vAssert(vEqBytes(got[s][i], sent[s][i]), "messages-in-order-unmodified")
			}
		}
		vAssert(len(done) == 1 && c.Error == nil && vEqBytes(r, zzReplyFor(a)), "unary-call-unaffected-by-streams")
		vReach("end")
	})
}

// zzH_STRe: server side, the end comes right behind the open request: the peer opens a stream, sends
// at most one message and then closes the stream and/or disconnects without ever pausing, so the
// handler may be anywhere in its first ReadMessage when the teardown closes its stream (meant for
// lock granularity: the wake-up must not be lost between the handler's closed-check and its wait).
// The handler returns and nothing the server started is left.
func zzH_STRe() {
	log := &zzLog{}
	poll := vChoose("poll", 2) == 1
	directIO := vChoose("directIO", 2) == 1
	s, svc := zzNewServer(log, false, directIO, false, false)
	s.poll = poll
	handlerDone := false
	svc.streamFn = func(st *ZZStream) {
		for i := 0; i < 3; i++ {
			var msg []byte
			if st.s.ReadMessage(nil, &msg) != nil {
				break
			}
		}
		handlerDone = true
	}
	m := newZZMsgs(8)
	lis := newZZListener()
	if poll {
		lis.poll = []*zzMsgs{m}
	} else {
		lis.conns <- &zzConn{m: m}
	}
	vGo("listen", func() {
		s.listen(&zzSocket{lis: lis}, "zz", func(messages socket_Messages) ServerCodec {
			return NewServerCodec(&zzBytesCodec{}, nil, messages, s.directIO, 64)
		})
	})
	m.deliver(zzRequest(5, zzUpgBytes(zzUpgOpenStream), "S.Watch", nil))
	if vChoose("one-message", 2) == 1 {
		m.deliver(zzRequest(5, zzUpgBytes(zzUpgStreaming), "", []byte{0x61}))
	}
	if vChoose("close-stream-first", 2) == 1 {
		m.deliver(zzRequest(5, zzUpgBytes(zzUpgCloseStream), "", nil))
	}
	m.fail(io.EOF)
	vQuiesce()
	s.Close()
	vAtEnd(func() {
		vAssert(handlerDone, "handler-returns-after-stream-or-connection-end")
		vAssert(vBlocked() == 0, "no-goroutine-left")
		vReach("end")
	})
}

// zzH_STRmr: several goroutines blocked in ReadMessage on ONE client stream when a burst of as many
// messages arrives back to back: every message is delivered to some reader, once (no message stays
// queued while a reader stays blocked). Afterwards the stream is closed and nobody is left blocked.
func zzH_STRmr() {
	R := vParam("strmr.R", 2)
	m := newZZMsgs(8)
	m.out = make(chan []byte, 8)
	conn := NewConnWithCodec(NewClientCodec(&zzBytesCodec{}, nil, m, 64))
	switch vChoose("mode", 3) {
	case 1:
		conn.directIO = true
	case 2:
		conn.SetPipelining(true)
	}
	var st Stream
	opened := make(chan struct{}, 1)
	vGo("opener", func() {
		s, err := conn.NewStream("S.Watch")
		vAssert(err == nil && s != nil, "stream-opened")
		st = s
		opened <- struct{}{}
	})
	var open pbRequest
	open.Unmarshal(<-m.out)
	m.deliver(zzResponse(open.Seq, "", nil))
	<-opened
	got := make([][]byte, R)
	errs := make([]error, R)
	back := make([]bool, R)
	for i := 0; i < R; i++ {
		i := i
		vGo("reader", func() {
			var msg []byte
			errs[i] = st.ReadMessage(nil, &msg)
			got[i] = msg
			back[i] = true
		})
	}
	vQuiesce() // every reader is parked
	for i := 0; i < R; i++ {
		m.deliver(zzResponse(open.Seq, "", []byte{byte(0x61 + i)}))
	}
	vQuiesce()
	seen := map[byte]int{}
	for i := 0; i < R; i++ {
		vAssert(back[i] && errs[i] == nil && len(got[i]) == 1, "all-messages-delivered")
		if len(got[i]) == 1 {
			seen[got[i][0]]++
		}
	}
	for i := 0; i < R; i++ {
		vAssert(seen[byte(0x61+i)] == 1, "all-messages-delivered")
	}
	m.auto = true
	m.autoStreams = true
	m.out = nil
	m.yieldW = false
	st.Close()
	m.fail(io.EOF)
	vAtEnd(func() {
		vAssert(vBlocked() == 0, "reader-unblocked")
		vReach("end")
	})
}
