package rpc

import (
	"context"
	"time"
)

// ---- load-balancing Client harness shared by C16 (routing) and C18 (fail-over, waiters, Close) ----

// zzRT is the stub RoundTripper: it records the address of every call and answers according to the
// scripted health of that address (down: ErrDial).
type zzRT struct {
	slowPing bool // a probe takes time
	up     map[string]bool
	calls  []string
	pings  []string
	closed int
}

func (r *zzRT) result(addr string) error {
	if addr == "" || !r.up[addr] {
		return ErrDial
	}
	return nil
}
func (r *zzRT) RoundTrip(addr string, call *Call) *Call {
	r.calls = append(r.calls, addr)
	call.Error = r.result(addr)
	call.Done = checkDone(call.Done)
	call.done()
	return call
}
func (r *zzRT) Go(addr, serviceMethod string, args interface{}, reply interface{}, done chan *Call) *Call {
	r.calls = append(r.calls, addr)
	call := &Call{ServiceMethod: serviceMethod, Args: args, Reply: reply, Done: checkDone(done)}
	call.Error = r.result(addr)
	call.done()
	return call
}
func (r *zzRT) Call(addr, serviceMethod string, args interface{}, reply interface{}) error {
	r.calls = append(r.calls, addr)
	return r.result(addr)
}
func (r *zzRT) CallWithContext(ctx context.Context, addr string, serviceMethod string, args interface{}, reply interface{}) error {
	r.calls = append(r.calls, addr)
	return r.result(addr)
}
func (r *zzRT) NewStream(addr, key string) (Stream, error) {
	r.calls = append(r.calls, addr)
	return nil, r.result(addr)
}
func (r *zzRT) Ping(addr string) error {
	r.pings = append(r.pings, addr)
	if r.slowPing {
		res := r.result(addr)
		vYield()
		return res
	}
	return r.result(addr)
}
func (r *zzRT) Close() error {
	r.closed++
	return nil
}

var zzTargetMenu = [][]string{{"a"}, {"a", "b"}, {"b", "c"}, {"a", "a", ""}, {}, {"c", "b", "a"}}

func zzSet(t []string) map[string]bool {
	m := map[string]bool{}
	for _, x := range t {
		if x != "" {
			m[x] = true
		}
	}
	return m
}

// zzH_CLT: a bounded history of Update / health changes / calls / idle periods on a real Client over the
// stub RoundTripper; the detector ticks and the DialTimeout timers fire at any quiescent point.
func zzH_CLT() {
	S := vParam("clt.S", 3)
	rt := &zzRT{up: map[string]bool{"a": true, "b": true, "c": true}}
	c := NewClient(nil)
	c.Transport = rt
	c.Scheduling = Scheduling(vChoose("policy", 3))
	vSetTimerBudget(vParam("clt.ticks", 2))
	// latency estimates only order the LeastTime picks; the clock is concrete here (C17 covers the
	// symbolic-clock behaviour of the policies), timers still fire at every quiescent point
	vSetClockStep([]int{1, 1000000000}[vChoose("clockstep", 2)])
	var director string
	if vChoose("director", 2) == 1 {
		c.Director = func() string { return director }
	}
	current := map[string]bool{}
	if vChoose("initial", 2) == 1 {
		c.Update("a", "b")
		current = zzSet([]string{"a", "b"})
	}
	rt.slowPing = vParam("clt.slowping", 0) == 1
	nops := 4
	if rt.slowPing {
		nops = 5
	}
	for step := 0; step < S; step++ {
		switch vChoose("op", nops) {
		case 4:
			vYield() // let probes make partial progress
		case 0:
			t := zzTargetMenu[vChoose("targets", len(zzTargetMenu))]
			c.Update(t...)
			current = zzSet(t)
		case 1:
			x := []string{"a", "b", "c"}[vChoose("host", 3)]
			rt.up[x] = !rt.up[x]
		case 2:
			if c.Director != nil {
				director = []string{"", "d"}[vChoose("dir", 2)]
			}
			n := len(rt.calls)
			var err error
			switch vChoose("form", vParam("clt.forms", 1)) {
			case 0:
				err = c.Call("S.M", nil, nil)
			case 1:
				err = c.CallWithContext(&zzCtx{done: make(chan struct{})}, "S.M", nil, nil)
			case 2:
				call := c.Go("S.M", nil, nil, make(chan *Call, 1))
				err = call.Error
			case 3:
				call := c.RoundTrip(&Call{ServiceMethod: "S.M", Done: make(chan *Call, 1)})
				err = call.Error
			case 4:
				_, err = c.NewStream("S.M")
			}
			if len(rt.calls) > n {
				vAssert(len(rt.calls) == n+1, "one-roundtrip-per-call")
				addr := rt.calls[n]
				if addr == "" {
					// Go/RoundTrip/NewStream report a routing failure by handing the transport the empty
					// address, which it refuses with ErrDial: that is not a routed call
					vAssert(err != nil, "unrouted-call-fails-with-timeout")
				} else if director != "" {
					vAssert(addr == director, "director-result-wins")
				} else {
					vAssert(current[addr], "routed-to-current-target")
				}
			} else {
				vAssert(err == ErrTimeout || err == ErrDial, "unrouted-call-fails-with-timeout")
			}
		case 3:
			vQuiesce()
		}
	}
	c.Close()
	vAssert(c.Call("S.M", nil, nil) == ErrShutdown, "call-after-close-is-shutdown")
	vAssert(c.Close() == nil, "second-close-nil")
	vAtEnd(func() {
		vAssert(vBlocked() == 0, "all-goroutines-exit-after-close")
		vAssert(rt.closed >= 1, "transport-closed")
		vReach("end")
	})
}

var _ = time.Second

// zzH_C18u: refreshing the target list. Update(a,b), the detector finds both, Update again with the
// same set in another order (or another set); once a detector round has probed every current target
// after the last Update, a call must be routed at once (no waiting, no time-out) to a current target.
func zzH_C18u() {
	rt := &zzRT{up: map[string]bool{"a": true, "b": true, "c": true}}
	c := NewClient(nil)
	c.Transport = rt
	c.Scheduling = Scheduling(vChoose("policy", 3))
	vSetClockStep(1)
	vSetTimerBudget(vParam("c18.ticks", 3))
	first := [][]string{{"a", "b"}, {"a"}, {"c", "b", "a"}}[vChoose("first", 3)]
	c.Update(first...)
	vQuiesce()
	second := [][]string{{"b", "a"}, {"a", "b"}, {"a"}, {"b", "c"}, {"a", "b", "c"}}[vChoose("second", 5)]
	c.Update(second...)
	p0 := len(rt.pings)
	vQuiesce()
	probed := map[string]bool{}
	for _, a := range rt.pings[p0:] {
		probed[a] = true
	}
	all := true
	for _, a := range second {
		if !probed[a] {
			all = false
		}
	}
	if all {
		// a full detector round has happened since the Update: the live list must be populated
		c.lock.Lock()
		n := len(c.list)
		c.lock.Unlock()
		vAssert(n == len(second), "live-list-rebuilt-after-update")
		k := len(rt.calls)
		err := c.Call("S.M", nil, nil)
		vAssert(err == nil && len(rt.calls) == k+1, "call-routed-at-once-when-targets-are-live")
		if len(rt.calls) == k+1 {
			vAssert(zzSet(second)[rt.calls[k]], "routed-to-current-target")
		}
	}
	c.Close()
	vReach("end")
}

// zzH_C16p: Update while health probes of the previous targets are still in flight (a probe takes
// time). After Update returns, a call must only be routed to a target of the new list, whatever the
// order in which old and new probes finish.
func zzH_C16p() {
	rt := &zzRT{up: map[string]bool{"a": true, "b": true, "c": true}, slowPing: true}
	c := NewClient(nil)
	c.Transport = rt
	c.Scheduling = Scheduling(vChoose("policy", vParam("c16p.policies", 1)))
	vSetClockStep(1)
	vSetTimerBudget(vParam("clt.ticks", 2))
	c.Update("a", "b")
	for i := 0; i < vChoose("progress", 3); i++ {
		vYield() // the detector and its probes make some progress
	}
	second := [][]string{{"c"}, {"b", "c"}, {"b"}}[vChoose("second", 3)]
	c.Update(second...)
	n := len(rt.calls)
	err := c.Call("S.M", nil, nil)
	if len(rt.calls) > n {
		vAssert(zzSet(second)[rt.calls[n]], "routed-to-current-target")
	} else {
		vAssert(err == ErrTimeout || err == ErrDial, "unrouted-call-fails-with-timeout")
	}
	vQuiesce()
	n = len(rt.calls)
	err = c.Call("S.M", nil, nil)
	if len(rt.calls) > n {
		vAssert(zzSet(second)[rt.calls[n]], "routed-to-current-target")
	}
	c.Close()
	vReach("end")
}

// zzH_C16h: routing after the target list shrinks or changes while the previous targets are live and
// have latency estimates (LeastTime keeps a separate heap): Update(X), the detector finds them, a few
// calls, Update(Y), then calls with and without a detector round in between; every call is routed to
// a member of Y.
func zzH_C16h() {
	rt := &zzRT{up: map[string]bool{"a": true, "b": true, "c": true}}
	c := NewClient(nil)
	c.Transport = rt
	if vParam("c16h.allpolicies", 0) == 1 {
		c.Scheduling = Scheduling(vChoose("policy", 3))
	} else {
		c.Scheduling = LeastTimeScheduling // the policy with a derived structure of its own (the heap)
	}
	vSetClockStep(1)
	vSetTimerBudget(vParam("clt.ticks", 1))
	x := [][]string{{"c", "b", "a"}, {"a", "b"}}[vChoose("first", vParam("c16h.firsts", 1))]
	c.Update(x...)
	vQuiesce()
	for i := 0; i < 1+vChoose("warm-calls", 2); i++ {
		c.Call("S.M", nil, nil)
	}
	y := [][]string{{"a", "b"}, {"b"}, {"b", "c"}}[vChoose("second", 3)]
	c.Update(y...)
	if vChoose("settle", 2) == 1 {
		vQuiesce()
	}
	for i := 0; i < 2; i++ {
		n := len(rt.calls)
		err := c.Call("S.M", nil, nil)
		if len(rt.calls) > n {
			vAssert(zzSet(y)[rt.calls[n]], "routed-to-current-target")
		} else {
			vAssert(err == ErrTimeout || err == ErrDial, "unrouted-call-fails-with-timeout")
		}
	}
	c.Close()
	vReach("end")
}

// zzH_C17d: round robin with a stable set of live targets while one more configured target stays down
// and keeps being probed by the detector between calls: any n consecutive calls still go to n distinct
// live targets.
func zzH_C17d() {
	rt := &zzRT{up: map[string]bool{"a": true, "b": true, "c": false}}
	c := NewClient(nil)
	c.Transport = rt
	c.Scheduling = Scheduling(vChoose("policy", 2)) // RoundRobin, Random (sanity: only live targets)
	vSetClockStep(1)
	vSetTimerBudget(vParam("clt.ticks", 3))
	c.Update("a", "b", "c")
	vQuiesce()
	if len(c.list) != 2 {
		return // the detector has not found both live targets on this schedule
	}
	var picked []string
	for i := 0; i < 2; i++ {
		n := len(rt.calls)
		err := c.Call("S.M", nil, nil)
		vAssert(err == nil && len(rt.calls) == n+1, "call-routed-at-once-when-targets-are-live")
		if len(rt.calls) == n+1 {
			vAssert(rt.calls[n] == "a" || rt.calls[n] == "b", "picked-live-target")
			picked = append(picked, rt.calls[n])
		}
		vQuiesce() // detector rounds (probing the dead target) may happen between the calls
	}
	if c.Scheduling == RoundRobinScheduling && len(picked) == 2 {
		vAssert(picked[0] != picked[1], "round-robin-consecutive-calls-distinct")
	}
	c.Close()
	vReach("end")
}

// zzH_C17p: LeastTime on a Client whose live list and heap were built by the real detector (check):
// n = 2 or 3 stable live targets with latency estimates in every order, then a sequence of calls each
// of which is a probe (the Tick has elapsed) or not. Probes rotate over the live targets (any n
// consecutive probes hit n distinct targets) and every other call goes to a target whose estimate
// is minimal at that moment.
func zzH_C17p() {
	n := 2 + vChoose("n", vParam("c17p.ns", 2))
	names := []string{"a", "b", "c"}[:n]
	rt := &zzRT{up: map[string]bool{"a": true, "b": true, "c": true}}
	c := NewClient(nil)
	c.Transport = rt
	c.Scheduling = LeastTimeScheduling
	vSetClockStep(1)
	vSetTimerBudget(1)
	c.Update(names...)
	vQuiesce()
	if len(c.list) != n {
		return // the detector has not found every target on this schedule
	}
	// estimates in a chosen order (distinct values; the order need not be the list order)
	perm := [][]int64{{10, 20, 30}, {20, 10, 30}, {30, 20, 10}, {10, 30, 20}, {20, 30, 10}, {30, 10, 20}}[vChoose("latency-order", 6)]
	for i, a := range names {
		c.targets[a].latency = perm[i] * 1000
	}
	var probes []string
	K := vParam("c17p.K", 4)
	for i := 0; i < K; i++ {
		probe := vChoose("probe", 2) == 1
		c.lock.Lock()
		if probe {
			c.lastTime = time.Time{} // long ago: the Tick has elapsed
		} else {
			c.lastTime = time.Now().Add(time.Hour) // a probe has just happened
		}
		min := int64(-1)
		est := map[string]int64{}
		for _, a := range names {
			l := c.targets[a].latency
			est[a] = l
			if min < 0 || l < min {
				min = l
			}
		}
		c.lock.Unlock()
		before := len(rt.calls)
		err := c.Call("S.M", nil, nil)
		vAssert(err == nil && len(rt.calls) == before+1, "call-routed-at-once-when-targets-are-live")
		if len(rt.calls) != before+1 {
			return
		}
		to := rt.calls[before]
		if probe {
			probes = append(probes, to)
		} else {
			// the estimate the call was routed by (its own completion has updated it since: compare
			// against the minimum taken before the call)
			vAssert(est[to] == min, "least-time-picks-minimal-estimate")
		}
	}
	for i := 0; i+n <= len(probes); i++ {
		seen := map[string]bool{}
		for _, p := range probes[i : i+n] {
			seen[p] = true
		}
		vAssert(len(seen) == n, "least-time-probes-rotate")
	}
	c.Close()
	vReach("end")
}

// zzH_C16d: duplicate and empty strings in the target list are ignored: with round robin over the
// live targets of Update("a","","b","a") (and other lists with repeats) any n consecutive calls,
// n = number of distinct targets, reach n distinct targets - a repeated address carries no extra
// weight - and every call goes to a listed address.
func zzH_C16d() {
	rt := &zzRT{up: map[string]bool{"a": true, "b": true, "c": true}}
	c := NewClient(nil)
	c.Transport = rt
	c.Scheduling = RoundRobinScheduling
	vSetClockStep(1)
	vSetTimerBudget(vParam("clt.ticks", 1))
	lists := [][]string{{"a", "", "b", "a"}, {"c", "b", "c", "c"}, {"a", "a", "b", "b"}, {"b", "a", "b"}}
	l := lists[vChoose("list", len(lists))]
	if vChoose("via-second-update", 2) == 1 {
		c.Update("c", "a")
		vQuiesce()
	}
	c.Update(l...)
	vQuiesce()
	distinct := zzSet(l)
	delete(distinct, "")
	n := len(distinct)
	c.lock.Lock()
	live := len(c.list)
	c.lock.Unlock()
	if live < n {
		return // the detector has not found every target on this schedule
	}
	var picked []string
	for i := 0; i < 2*n; i++ {
		k := len(rt.calls)
		err := c.Call("S.M", nil, nil)
		vAssert(err == nil && len(rt.calls) == k+1, "call-routed-at-once-when-targets-are-live")
		if len(rt.calls) != k+1 {
			return
		}
		vAssert(distinct[rt.calls[k]], "routed-to-current-target")
		picked = append(picked, rt.calls[k])
	}
	for i := 0; i+n <= len(picked); i++ {
		seen := map[string]bool{}
		for _, p := range picked[i : i+n] {
			seen[p] = true
		}
		vAssert(len(seen) == n, "duplicate-targets-carry-no-extra-weight")
	}
	c.Close()
	vReach("end")
}

// zzH_C17w: the latency estimate is the moving average of observed CALL durations: a caller that
// first has to wait for a live target (both targets are down when it starts, the clock advances a
// lot while it is parked) and is then routed contributes the duration of its call only - for every
// call form that feeds the estimate. The clock is concrete and advances by one unit per reading, so
// the sample of the first call to a fresh target is a handful of units, never the hundreds spent
// waiting.
func zzH_C17w() {
	rt := &zzRT{up: map[string]bool{"a": false, "b": false}}
	c := NewClient(nil)
	c.Transport = rt
	c.Scheduling = LeastTimeScheduling
	vSetClockStep(1)
	vSetTimerBudget(0)
	vSetOneShotTimers(false)
	c.Update("a", "b")
	vQuiesce()
	form := vChoose("form", 4)
	returned := false
	vGo("caller", func() {
		switch form {
		case 0:
			c.Call("S.M", nil, nil)
		case 1:
			c.CallWithContext(&zzCtx{done: make(chan struct{})}, "S.M", nil, nil)
		case 2:
			c.NewStream("S.Watch")
		case 3:
			c.Ping()
		}
		returned = true
	})
	vQuiesce() // the caller is parked: no target is live
	for i := 0; i < 300; i++ {
		time.Now() // time passes
	}
	rt.up["a"], rt.up["b"] = true, true
	n := len(rt.calls) + len(rt.pings)
	c.detect()
	vQuiesce()
	vAssert(returned, "waiter-released-when-a-target-becomes-live")
	if !returned || len(rt.calls) == 0 {
		return
	}
	_ = n
	to := rt.calls[len(rt.calls)-1]
	if form == 3 {
		return // Ping is recorded by the stub as a probe, not as a call: the target is not identifiable here
	}
	c.lock.Lock()
	two := len(c.list) == 2
	lat := c.targets[to].latency
	c.lock.Unlock()
	if two && lat < clientLatency {
		// a sample was taken (the call was routed by the policy, not as the single live target)
		vAssert(lat < 100, "latency-sample-is-the-call-duration")
	}
	c.Close()
	vReach("end")
}

// zzH_C16u: Update is atomic with respect to the detector: a probe of an OLD target that completes
// while Update(new) is in progress (lock granularity, one preemption) must not leave the old target
// routable once Update has returned. One old target, one new target, ticks off.
func zzH_C16u() {
	rt := &zzRT{up: map[string]bool{"a": true, "b": true}, slowPing: true}
	c := NewClient(nil)
	c.Transport = rt
	vSetClockStep(1)
	vSetTimerBudget(2) // a caller that has to wait is released by a detector tick (or times out)
	c.Update("a")
	vYield() // the first detector round starts: the probe of a is in flight (it takes time)
	c.Update("b")
	n := len(rt.calls)
	err := c.Call("S.M", nil, nil)
	if len(rt.calls) > n {
		vAssert(rt.calls[n] == "b", "routed-to-current-target")
	} else {
		vAssert(err == ErrTimeout || err == ErrDial, "unrouted-call-fails-with-timeout")
	}
	c.Close()
	vReach("end")
}
