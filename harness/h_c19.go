package rpc

import (
	"errors"
	"io"
	"time"
)

// ---- C19: context cancellation returns promptly and harms no other call ----

var errZZCanceled = errors.New("zz: context canceled")

type zzCtx struct {
	done chan struct{}
	err  error
	buf  []byte
}

func (c *zzCtx) Deadline() (time.Time, bool) { return time.Time{}, false }
func (c *zzCtx) Done() <-chan struct{}       { return c.done }
func (c *zzCtx) Err() error                  { return c.err }
func (c *zzCtx) Value(key interface{}) interface{} {
	if key == BufferContextKey && c.buf != nil {
		return c.buf
	}
	return nil
}

// zzH_C19: one CallWithContext and one sibling call on a connection; the environment (a correct
// server) answers, cancels, or never answers, in every order; a later call follows.
func zzH_C19() {
	m := newZZMsgs(8)
	m.out = make(chan []byte, 8)
	conn := NewConnWithCodec(NewClientCodec(&zzBytesCodec{}, nil, m, 64))
	mode := vChoose("mode", 3)
	switch mode {
	case 1:
		conn.directIO = true
	case 2:
		conn.SetPipelining(true)
	}
	n := 1 + 2*vChoose("replylen", 2) // reply = 'R' + args: 2 or 4 bytes
	args := vBytesN("args", n)
	rlen := n + 1
	capChoice := vChoose("bufcap", 5)
	ctx := &zzCtx{done: make(chan struct{})}
	switch capChoice {
	case 1:
		ctx.buf = vBufferN("cbuf", rlen-1)
	case 2:
		ctx.buf = vBufferN("cbuf", rlen)
	case 3:
		ctx.buf = vBufferN("cbuf", rlen+2)
	case 4:
		ctx.buf = vBufferN("cbuf", 1)
	}
	var stale []byte
	if ctx.buf != nil {
		stale = append([]byte(nil), ctx.buf[:cap(ctx.buf)]...)
	}
	var reply, reply2, reply3 []byte
	var err error
	returned := false
	args2 := []byte{0x22, 0x22, 0x22, 0x22, 0x22} // the sibling is recognised by its argument length
	args3 := []byte{0x33, 0x33, 0x33, 0x33, 0x33, 0x33}
	done2 := make(chan *Call, 2)
	vGo("caller", func() {
		err = conn.CallWithContext(ctx, "S.Echo", &args, &reply)
		returned = true
	})
	call2 := conn.Go("S.Echo", &args2, &reply2, done2)
	script := vChoose("script", 6)
	cancelled, answered := false, false
	answer := func(r pbRequest) { m.deliver(zzResponse(r.Seq, "", zzReplyFor(r.Args))) }
	recvReq := func() pbRequest {
		f := <-m.out
		var r pbRequest
		r.Unmarshal(f)
		return r
	}
	cancelEarly := vChoose("cancel-before-requests-are-written", 2) == 1
	cancel := func() {
		ctx.err = errZZCanceled
		close(ctx.done)
		cancelled = true
	}
	if cancelEarly {
		cancel() // the context ends while its call may still be queued behind another write
	}
	// a correct server can only answer requests it has received
	var mine, other pbRequest
	for i := 0; i < 2; i++ {
		r := recvReq()
		if len(r.Args) == len(args2) {
			other = r
		} else {
			mine = r
		}
	}
	if cancelEarly && (script == 1 || script == 2 || script >= 3) {
		script = 0 // already cancelled: the remaining scripts only differ in when they cancel
	}
	switch script {
	case 0: // answer both, never cancel
		answer(mine)
		answered = true
		answer(other)
	case 1: // cancel, then answer both (late response for the abandoned call)
		cancel()
		vQuiesce()
		answer(mine)
		answered = true
		answer(other)
	case 2: // answer, then cancel
		answer(mine)
		answered = true
		answer(other)
		vQuiesce()
		cancel()
	case 3: // never answer the context call; cancel
		answer(other)
		cancel()
	case 4, 5: // answer and cancel without waiting in between
		answer(other)
		answer(mine)
		answered = true
		cancel()
	}
	if script != 5 {
		vQuiesce() // script 5: the later call is issued while the abandoned call may still be decoding
	}
	// a later call on the same connection still gets its own reply
	done3 := make(chan *Call, 2)
	call3 := conn.Go("S.Echo", &args3, &reply3, done3)
	answer(recvReq())
	vQuiesce()
	m.fail(io.EOF)
	vAtEnd(func() {
		vAssert(returned, "callwithcontext-returns")
		vAssert(len(done2) == 1 && call2.Error == nil && vEqBytes(reply2, zzReplyFor(args2)), "sibling-gets-own-reply")
		vAssert(len(done3) == 1 && call3.Error == nil && vEqBytes(reply3, zzReplyFor(args3)), "later-call-gets-own-reply")
		if !cancelled {
			vAssert(err == nil, "reply-when-not-cancelled")
		}
		if !answered {
			vAssert(err == errZZCanceled, "ctx-error-when-never-answered")
		}
		vAssert(err == nil || err == errZZCanceled, "error-is-ctx-error")
		if err == nil {
			vAssert(vEqBytes(reply, zzReplyFor(args)), "own-reply")
			if ctx.buf != nil && cap(ctx.buf) >= rlen {
				vAssert(&reply[0] == &ctx.buf[:1][0], "reply-placed-in-context-buffer")
				vAssert(vEqBytes(ctx.buf[rlen:cap(ctx.buf)], stale[rlen:]), "nothing-written-past-reply-length")
			}
		}
		if ctx.buf != nil && cap(ctx.buf) < rlen {
			vAssert(vEqBytes(ctx.buf[:cap(ctx.buf)], stale), "small-buffer-untouched")
		}
		vAssert(vBlocked() == 0, "no-goroutine-stuck")
		vReach("end")
	})
}
