package rpc

// ---- C07: wire headers round-trip losslessly and keep their documented format ----

// zzH_C07upg: upgrade flags round-trip for every flag combination; Unmarshal of any byte yields
// in-range fields; Marshal writes exactly one byte into a buffer of any capacity.
func zzH_C07upg() {
	u := &upgrade{NoRequest: vByte("nr"), NoResponse: vByte("nrs"), Heartbeat: vByte("hb"), Stream: vByte("st")}
	vAssume(u.NoRequest <= 1 && u.NoResponse <= 1 && u.Heartbeat <= 1 && u.Stream <= 3)
	buf := vBuffer("buf", 2)
	out, err := u.Marshal(buf)
	vAssert(err == nil, "marshal-ok")
	vAssert(len(out) == 1, "one-byte")
	var got upgrade
	n, err := got.Unmarshal(out)
	vAssert(err == nil && n == 1, "unmarshal-ok")
	vAssert(got == *u, "round-trip")
	// documented layout: NoRequest bit7, NoResponse bit6, Heartbeat bit5, Stream bits 4..3
	vAssert(out[0] == u.NoRequest<<7|u.NoResponse<<6|u.Heartbeat<<5|u.Stream<<3, "layout")
	// any byte decodes to in-range fields and re-encodes to the same significant bits
	var any upgrade
	b := []byte{vByte("any")}
	any.Unmarshal(b)
	vAssert(any.NoRequest <= 1 && any.NoResponse <= 1 && any.Heartbeat <= 1 && any.Stream <= 3, "in-range")
	o2, _ := any.Marshal(nil)
	vAssert(o2[0] == b[0]&0xf8, "reencode")
	vReach("end")
}

// ---- reference encoders (the documented formats), written independently of the implementation ----

func zzRefVarint(out []byte, v uint64) []byte {
	for v >= 0x80 {
		out = append(out, byte(v)|0x80)
		v >>= 7
	}
	return append(out, byte(v))
}

// proto3 wire format: field n, wire type 0 (varint) tag n<<3, wire type 2 (length-delimited) tag n<<3|2;
// zero/empty fields are omitted.
func zzRefPBRequest(seq uint64, upg []byte, method string, args []byte) []byte {
	var out []byte
	if seq != 0 {
		out = append(out, 0x08)
		out = zzRefVarint(out, seq)
	}
	if len(upg) > 0 {
		out = append(out, 0x12)
		out = zzRefVarint(out, uint64(len(upg)))
		out = append(out, upg...)
	}
	if len(method) > 0 {
		out = append(out, 0x1a)
		out = zzRefVarint(out, uint64(len(method)))
		out = append(out, method...)
	}
	if len(args) > 0 {
		out = append(out, 0x22)
		out = zzRefVarint(out, uint64(len(args)))
		out = append(out, args...)
	}
	return out
}

func zzRefPBResponse(seq uint64, errText string, reply []byte) []byte {
	var out []byte
	if seq != 0 {
		out = append(out, 0x08)
		out = zzRefVarint(out, seq)
	}
	if len(errText) > 0 {
		out = append(out, 0x12)
		out = zzRefVarint(out, uint64(len(errText)))
		out = append(out, errText...)
	}
	if len(reply) > 0 {
		out = append(out, 0x1a)
		out = zzRefVarint(out, uint64(len(reply)))
		out = append(out, reply...)
	}
	return out
}

// "code" format: varint Seq, then each field as varint length + bytes, fixed order, nothing omitted.
func zzRefCodeRequest(seq uint64, upg []byte, method string, args []byte) []byte {
	var out []byte
	out = zzRefVarint(out, seq)
	out = zzRefVarint(out, uint64(len(upg)))
	out = append(out, upg...)
	out = zzRefVarint(out, uint64(len(method)))
	out = append(out, method...)
	out = zzRefVarint(out, uint64(len(args)))
	out = append(out, args...)
	return out
}

func zzRefCodeResponse(seq uint64, errText string, reply []byte) []byte {
	var out []byte
	out = zzRefVarint(out, seq)
	out = zzRefVarint(out, uint64(len(errText)))
	out = append(out, errText...)
	out = zzRefVarint(out, uint64(len(reply)))
	out = append(out, reply...)
	return out
}

// zzLenPick returns a field length from the bound's menu: small lengths 0..small and windows
// around the varint boundary 127/128 (and, in the thorough tier, 16383/16384).
func zzLenPick(name string) int {
	small := vParam("c07.small", 2)
	menu := []int{}
	for i := 0; i <= small; i++ {
		menu = append(menu, i)
	}
	if vParam("c07.b128", 1) == 1 {
		menu = append(menu, 127, 128)
	}
	if vParam("c07.b16k", 0) == 1 {
		menu = append(menu, 16383, 16384)
	}
	return menu[vChoose(name, len(menu))]
}

// zzSeqAssumeClass constrains seq to one of the ten varint size classes (chosen by the explorer), so
// that each path's encoder loop has a concrete trip count while the value stays symbolic inside it.
func zzSeqClass(seq uint64) {
	k := vChoose("seqclass", 11)
	switch k {
	case 0:
		vAssume(seq == 0)
	case 10:
		vAssume(seq >= 1<<63)
	default:
		lo := uint64(1) << (7 * uint(k-1))
		if k == 1 {
			lo = 1
		}
		hi := uint64(1) << (7 * uint(k))
		vAssume(seq >= lo)
		vAssume(seq < hi)
	}
}

// zzH_C07pbq: default header encoder, request: Size/MarshalTo/Unmarshal + checkBuffer (exactly the
// sequence clientCodec.WriteRequest / serverCodec.ReadRequestHeader perform).
func zzH_C07pbq() {
	seq := vU64("seq")
	zzSeqClass(seq)
	req := &pbRequest{Seq: seq, Upgrade: vBytesN("upg", vChoose("upglen", 2)), ServiceMethod: vStringN("method", zzLenPick("mlen")), Args: vBytesN("args", zzLenPick("alen"))}
	size := req.Size()
	// caller's scratch buffer: any capacity relative to Size() (smaller, equal, larger), stale contents
	capChoice := vChoose("cap", 4)
	var scratch []byte
	switch capChoice {
	case 0:
		scratch = nil
	case 1:
		scratch = vBufferN("scratch", size-1)
	case 2:
		scratch = vBufferN("scratch", size)
	case 3:
		scratch = vBufferN("scratch", size+3)
	}
	stale := append([]byte(nil), scratch[:cap(scratch)]...)
	buf := checkBuffer(scratch, size)
	n, err := req.MarshalTo(buf)
	vAssert(err == nil, "marshal-ok")
	data := buf[:n]
	ref := zzRefPBRequest(req.Seq, req.Upgrade, req.ServiceMethod, req.Args)
	vAssert(vEqBytes(data, ref), "wire-format")
	if capChoice >= 2 {
		// in place, and nothing written past Size()
		vAssert(&buf[0] == &scratch[:1][0], "in-place")
		vAssert(vEqBytes(scratch[size:cap(scratch)], stale[size:]), "no-write-past-size")
	}
	var got pbRequest
	vAssert(got.Unmarshal(data) == nil, "unmarshal-ok")
	vAssert(got.Seq == req.Seq, "rt-seq")
	vAssert(vEqBytes(got.Upgrade, req.Upgrade), "rt-upgrade")
	vAssert(vEqString(got.ServiceMethod, req.ServiceMethod), "rt-method")
	vAssert(vEqBytes(got.Args, req.Args), "rt-args")
	vReach("end")
}
