package rpc

// ---- C07: wire headers round-trip losslessly and keep their documented format ----

// zzH_C07upg: upgrade flags round-trip for every flag combination; Unmarshal of any byte yields
// in-range fields; Marshal writes exactly one byte into a buffer of any capacity.
func zzH_C07upg() {
	u := &upgrade{NoRequest: vByte("nr"), NoResponse: vByte("nrs"), Heartbeat: vByte("hb"), Stream: vByte("st")}
	vAssume(u.NoRequest <= 1 && u.NoResponse <= 1 && u.Heartbeat <= 1 && u.Stream <= 3)
	buf := vBuffer("buf", 2)
	out, err := u.Marshal(buf)
	vAssert(err == nil, "marshal-ok")
	vAssert(len(out) == 1, "one-byte")
	var got upgrade
	n, err := got.Unmarshal(out)
	vAssert(err == nil && n == 1, "unmarshal-ok")
	vAssert(got == *u, "round-trip")
	// documented layout: NoRequest bit7, NoResponse bit6, Heartbeat bit5, Stream bits 4..3
	vAssert(out[0] == u.NoRequest<<7|u.NoResponse<<6|u.Heartbeat<<5|u.Stream<<3, "layout")
	// any byte decodes to in-range fields and re-encodes to the same significant bits
	var any upgrade
	b := []byte{vByte("any")}
	any.Unmarshal(b)
	vAssert(any.NoRequest <= 1 && any.NoResponse <= 1 && any.Heartbeat <= 1 && any.Stream <= 3, "in-range")
	o2, _ := any.Marshal(nil)
	vAssert(o2[0] == b[0]&0xf8, "reencode")
	vReach("end")
}

// ---- reference encoders (the documented formats), written independently of the implementation ----

func zzRefVarint(out []byte, v uint64) []byte {
	for v >= 0x80 {
		out = append(out, byte(v)|0x80)
		v >>= 7
	}
	return append(out, byte(v))
}

// proto3 wire format: field n, wire type 0 (varint) tag n<<3, wire type 2 (length-delimited) tag n<<3|2;
// zero/empty fields are omitted.
func zzRefPBRequest(seq uint64, upg []byte, method string, args []byte) []byte {
	var out []byte
	if seq != 0 {
		out = append(out, 0x08)
		out = zzRefVarint(out, seq)
	}
	if len(upg) > 0 {
		out = append(out, 0x12)
		out = zzRefVarint(out, uint64(len(upg)))
		out = append(out, upg...)
	}
	if len(method) > 0 {
		out = append(out, 0x1a)
		out = zzRefVarint(out, uint64(len(method)))
		out = append(out, method...)
	}
	if len(args) > 0 {
		out = append(out, 0x22)
		out = zzRefVarint(out, uint64(len(args)))
		out = append(out, args...)
	}
	return out
}

func zzRefPBResponse(seq uint64, errText string, reply []byte) []byte {
	var out []byte
	if seq != 0 {
		out = append(out, 0x08)
		out = zzRefVarint(out, seq)
	}
	if len(errText) > 0 {
		out = append(out, 0x12)
		out = zzRefVarint(out, uint64(len(errText)))
		out = append(out, errText...)
	}
	if len(reply) > 0 {
		out = append(out, 0x1a)
		out = zzRefVarint(out, uint64(len(reply)))
		out = append(out, reply...)
	}
	return out
}

// "code" format: varint Seq, then each field as varint length + bytes, fixed order, nothing omitted.
func zzRefCodeRequest(seq uint64, upg []byte, method string, args []byte) []byte {
	var out []byte
	out = zzRefVarint(out, seq)
	out = zzRefVarint(out, uint64(len(upg)))
	out = append(out, upg...)
	out = zzRefVarint(out, uint64(len(method)))
	out = append(out, method...)
	out = zzRefVarint(out, uint64(len(args)))
	out = append(out, args...)
	return out
}

func zzRefCodeResponse(seq uint64, errText string, reply []byte) []byte {
	var out []byte
	out = zzRefVarint(out, seq)
	out = zzRefVarint(out, uint64(len(errText)))
	out = append(out, errText...)
	out = zzRefVarint(out, uint64(len(reply)))
	out = append(out, reply...)
	return out
}

// zzLenPick returns a field length from the bound's menu: small lengths 0..small and windows
// around the varint boundary 127/128 (and, in the thorough tier, 16383/16384).
func zzLenPick(name string) int {
	if vParam("c07.b2m", 0) == 1 {
		// the 3-to-4-byte varint boundary (directed: nothing else in the menu)
		return []int{0, 2097151, 2097152}[vChoose(name, 3)]
	}
	small := vParam("c07.small", 2)
	menu := []int{}
	for i := 0; i <= small; i++ {
		menu = append(menu, i)
	}
	if vParam("c07.b128", 1) == 1 {
		menu = append(menu, 127, 128)
	}
	if vParam("c07.b16k", 0) == 1 {
		menu = append(menu, 16383, 16384)
	}
	return menu[vChoose(name, len(menu))]
}

// zzSeqAssumeClass constrains seq to one of the ten varint size classes (chosen by the explorer), so
// that each path's encoder loop has a concrete trip count while the value stays symbolic inside it.
func zzSeqClass(seq uint64) {
	var k int
	if vParam("c07.seqmode", 0) == 1 {
		k = []int{0, 1, 2, 10}[vChoose("seqclass", 4)]
	} else {
		k = vChoose("seqclass", 11)
	}
	switch k {
	case 0:
		vAssume(seq == 0)
	case 10:
		vAssume(seq >= 1<<63)
	default:
		lo := uint64(1) << (7 * uint(k-1))
		if k == 1 {
			lo = 1
		}
		hi := uint64(1) << (7 * uint(k))
		vAssume(seq >= lo)
		vAssume(seq < hi)
	}
}

// zzH_C07pbq: default header encoder, request: Size/MarshalTo/Unmarshal + checkBuffer (exactly the
// sequence clientCodec.WriteRequest / serverCodec.ReadRequestHeader perform).
func zzH_C07pbq() {
	seq := vU64("seq")
	zzSeqClass(seq)
	req := &pbRequest{Seq: seq, Upgrade: vBytesN("upg", vChoose("upglen", 2)), ServiceMethod: vStringN("method", zzLenPick("mlen")), Args: vBytesN("args", zzLenPick("alen"))}
	size := req.Size()
	// caller's scratch buffer: any capacity relative to Size() (smaller, equal, larger), stale contents
	capChoice := vChoose("cap", 4)
	var scratch []byte
	switch capChoice {
	case 0:
		scratch = nil
	case 1:
		scratch = vBufferN("scratch", size-1)
	case 2:
		scratch = vBufferN("scratch", size)
	case 3:
		scratch = vBufferN("scratch", size+3)
	}
	stale := append([]byte(nil), scratch[:cap(scratch)]...)
	buf := checkBuffer(scratch, size)
	n, err := req.MarshalTo(buf)
	vAssert(err == nil, "marshal-ok")
	data := buf[:n]
	ref := zzRefPBRequest(req.Seq, req.Upgrade, req.ServiceMethod, req.Args)
	vAssert(vEqBytes(data, ref), "wire-format")
	if capChoice >= 2 {
		// in place, and nothing written past Size()
		vAssert(&buf[0] == &scratch[:1][0], "in-place")
		vAssert(vEqBytes(scratch[size:cap(scratch)], stale[size:]), "no-write-past-size")
	}
	var got pbRequest
	vAssert(got.Unmarshal(data) == nil, "unmarshal-ok")
	vAssert(got.Seq == req.Seq, "rt-seq")
	vAssert(vEqBytes(got.Upgrade, req.Upgrade), "rt-upgrade")
	vAssert(vEqString(got.ServiceMethod, req.ServiceMethod), "rt-method")
	vAssert(vEqBytes(got.Args, req.Args), "rt-args")
	vReach("end")
}

func zzScratch(size int) (scratch []byte, inPlace bool) {
	switch vChoose("cap", 4) {
	case 0:
		return nil, false
	case 1:
		return vBufferN("scratch", size-1), false
	case 2:
		return vBufferN("scratch", size), true
	}
	return vBufferN("scratch", size+3), true
}

// zzH_C07pbr: default header encoder, response.
func zzH_C07pbr() {
	seq := vU64("seq")
	zzSeqClass(seq)
	res := &pbResponse{Seq: seq, Error: vStringN("err", zzLenPick("elen")), Reply: vBytesN("reply", zzLenPick("rlen"))}
	size := res.Size()
	scratch, inPlace := zzScratch(size)
	stale := append([]byte(nil), scratch[:cap(scratch)]...)
	buf := checkBuffer(scratch, size)
	n, err := res.MarshalTo(buf)
	vAssert(err == nil, "marshal-ok")
	data := buf[:n]
	vAssert(vEqBytes(data, zzRefPBResponse(res.Seq, res.Error, res.Reply)), "wire-format")
	if inPlace {
		vAssert(&buf[0] == &scratch[:1][0], "in-place")
		vAssert(vEqBytes(scratch[size:cap(scratch)], stale[size:]), "no-write-past-size")
	}
	var got pbResponse
	vAssert(got.Unmarshal(data) == nil, "unmarshal-ok")
	vAssert(got.Seq == res.Seq, "rt-seq")
	vAssert(vEqString(got.Error, res.Error), "rt-error")
	vAssert(vEqBytes(got.Reply, res.Reply), "rt-reply")
	vReach("end")
}

// zzH_C07gogo: the "pb" header encoder = GOGOPBCodec wrapper around pbRequest/pbResponse (both the
// in-place path and the Marshal() fallback), reached through the Encoder interface.
func zzH_C07gogo() {
	enc := NewHeaderEncoder("pb")()
	codec := enc.NewCodec()
	seq := vU64("seq")
	zzSeqClass(seq)
	if vChoose("kind", 2) == 0 {
		req := enc.NewRequest()
		upg := vBytesN("upg", vChoose("upglen", 2))
		method := vStringN("method", zzLenPick("mlen"))
		args := vBytesN("args", zzLenPick("alen"))
		req.SetSeq(seq)
		req.SetUpgrade(upg)
		req.SetServiceMethod(method)
		req.SetArgs(args)
		scratch, _ := zzScratch(req.(*pbRequest).Size())
		data, err := codec.Marshal(scratch, req)
		vAssert(err == nil, "marshal-ok")
		vAssert(vEqBytes(data, zzRefPBRequest(seq, upg, method, args)), "wire-format")
		got := enc.NewRequest()
		got.Reset()
		vAssert(codec.Unmarshal(data, got) == nil, "unmarshal-ok")
		vAssert(got.GetSeq() == seq && vEqBytes(got.GetUpgrade(), upg) && vEqString(got.GetServiceMethod(), method) && vEqBytes(got.GetArgs(), args), "round-trip")
	} else {
		res := enc.NewResponse()
		errText := vStringN("err", zzLenPick("elen"))
		reply := vBytesN("reply", zzLenPick("rlen"))
		res.SetSeq(seq)
		res.SetError(errText)
		res.SetReply(reply)
		scratch, _ := zzScratch(res.(*pbResponse).Size())
		data, err := codec.Marshal(scratch, res)
		vAssert(err == nil, "marshal-ok")
		vAssert(vEqBytes(data, zzRefPBResponse(seq, errText, reply)), "wire-format")
		got := enc.NewResponse()
		got.Reset()
		vAssert(codec.Unmarshal(data, got) == nil, "unmarshal-ok")
		vAssert(got.GetSeq() == seq && vEqString(got.GetError(), errText) && vEqBytes(got.GetReply(), reply), "round-trip")
	}
	vReach("end")
}

// zzH_C07codeq / coder: the "code" header encoder.
func zzH_C07codeq() {
	enc := NewHeaderEncoder("code")()
	codec := enc.NewCodec()
	seq := vU64("seq")
	zzSeqClass(seq)
	upg := vBytesN("upg", vChoose("upglen", 2))
	method := vStringN("method", zzLenPick("mlen"))
	args := vBytesN("args", zzLenPick("alen"))
	req := enc.NewRequest()
	req.SetSeq(seq)
	req.SetUpgrade(upg)
	req.SetServiceMethod(method)
	req.SetArgs(args)
	size := 40 + len(upg) + len(method) + len(args)
	scratch, inPlace := zzScratch(size)
	stale := append([]byte(nil), scratch[:cap(scratch)]...)
	data, err := codec.Marshal(scratch, req)
	vAssert(err == nil, "marshal-ok")
	vAssert(vEqBytes(data, zzRefCodeRequest(seq, upg, method, args)), "wire-format")
	if inPlace {
		vAssert(&data[:1][0] == &scratch[:1][0], "in-place")
		vAssert(vEqBytes(scratch[size:cap(scratch)], stale[size:]), "no-write-past-size")
	}
	got := enc.NewRequest()
	got.Reset()
	vAssert(codec.Unmarshal(data, got) == nil, "unmarshal-ok")
	vAssert(got.GetSeq() == seq, "rt-seq")
	vAssert(vEqBytes(got.GetUpgrade(), upg), "rt-upgrade")
	vAssert(vEqString(got.GetServiceMethod(), method), "rt-method")
	vAssert(vEqBytes(got.GetArgs(), args), "rt-args")
	vReach("end")
}

func zzH_C07coder() {
	enc := NewHeaderEncoder("code")()
	codec := enc.NewCodec()
	seq := vU64("seq")
	zzSeqClass(seq)
	errText := vStringN("err", zzLenPick("elen"))
	reply := vBytesN("reply", zzLenPick("rlen"))
	res := enc.NewResponse()
	res.SetSeq(seq)
	res.SetError(errText)
	res.SetReply(reply)
	size := 30 + len(errText) + len(reply)
	scratch, inPlace := zzScratch(size)
	stale := append([]byte(nil), scratch[:cap(scratch)]...)
	data, err := codec.Marshal(scratch, res)
	vAssert(err == nil, "marshal-ok")
	vAssert(vEqBytes(data, zzRefCodeResponse(seq, errText, reply)), "wire-format")
	if inPlace {
		vAssert(&data[:1][0] == &scratch[:1][0], "in-place")
		vAssert(vEqBytes(scratch[size:cap(scratch)], stale[size:]), "no-write-past-size")
	}
	got := enc.NewResponse()
	got.Reset()
	vAssert(codec.Unmarshal(data, got) == nil, "unmarshal-ok")
	vAssert(got.GetSeq() == seq, "rt-seq")
	vAssert(vEqString(got.GetError(), errText), "rt-error")
	vAssert(vEqBytes(got.GetReply(), reply), "rt-reply")
	vReach("end")
}

// zzH_C07glue: clientCodec.WriteRequest hands WriteMessage exactly the encoder's bytes and
// serverCodec.ReadRequestHeader / WriteResponse / clientCodec.ReadResponseHeader carry every field,
// for pool buffers smaller and larger than the message, under each header encoder.
func zzH_C07glue() {
	var enc Encoder
	switch vChoose("encoder", 3) {
	case 1:
		enc = NewHeaderEncoder("pb")()
	case 2:
		enc = NewHeaderEncoder("code")()
	}
	bufSize := []int{8, 64, 512}[vChoose("bufsize", 3)]
	cm := newZZMsgs(4)
	cm.yieldW = false
	sm := newZZMsgs(4)
	sm.yieldW = false
	cc := NewClientCodec(&BYTESCodec{}, enc, cm, bufSize)
	sc := NewServerCodec(&BYTESCodec{}, enc, sm, true, bufSize)
	seq := vU64("seq")
	zzSeqClass(seq)
	method := vStringN("method", zzLenPick("mlen"))
	args := vBytesN("args", zzLenPick("alen"))
	u := &upgrade{}
	var upgBytes []byte
	if vChoose("upg", 2) == 1 {
		u.NoResponse = noResponse
		upgBytes, _ = u.Marshal(nil)
	}
	ctx := &Context{Seq: seq, Upgrade: upgBytes, ServiceMethod: method, upgrade: u}
	vAssert(cc.WriteRequest(ctx, &args) == nil, "write-request-ok")
	vAssert(len(cm.writes) == 1, "one-frame")
	frame := cm.writes[0]
	if enc == nil || vChoose("encoder-is-pb", 1) == 0 && false {
		vAssert(vEqBytes(frame, zzRefPBRequest(seq, upgBytes, method, args)), "request-bytes")
	}
	// server side decodes the frame
	sctx := &Context{data: frame}
	vAssert(sc.ReadRequestHeader(sctx) == nil, "read-header-ok")
	vAssert(sctx.Seq == seq, "hdr-seq")
	vAssert(vEqString(sctx.ServiceMethod, method), "hdr-method")
	vAssert(vEqBytes(sctx.Upgrade, upgBytes), "hdr-upgrade")
	vAssert(vEqBytes(sctx.value, args), "hdr-args")
	// response path
	reply := vBytesN("reply", zzLenPick("rlen"))
	rctx := &Context{Seq: seq, upgrade: &upgrade{}}
	errText := ""
	if vChoose("witherr", 2) == 1 {
		errText = vStringN("err", 1+vChoose("elen", 2)*126)
		rctx.Error = errText
	}
	vAssert(sc.WriteResponse(rctx, &reply) == nil, "write-response-ok")
	vAssert(len(sm.writes) == 1, "one-response-frame")
	cctx := &Context{data: sm.writes[0]}
	vAssert(cc.ReadResponseHeader(cctx) == nil, "read-response-ok")
	vAssert(cctx.Seq == seq, "res-seq")
	vAssert(vEqString(cctx.Error, errText), "res-error")
	if errText == "" {
		vAssert(vEqBytes(cctx.value, reply), "res-reply")
	} else {
		vAssert(len(cctx.value) == 0, "res-no-reply-on-error")
	}
	vReach("end")
}
