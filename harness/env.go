package rpc

import (
	"errors"
	"io"
	"sync"
)

// zzMsgs is the stub socket.Messages used by every connection-level harness. It is ordinary Go
// (it runs natively in replays); the engine interprets it like any other code.
//
// Contract (stated in DESIGN.md §3): frames are delivered whole; ReadMessage places a frame in the
// caller's buffer when it fits and in a fresh slice otherwise (as hslam/socket messages.ReadMessage
// does); WriteMessage records a copy of the frame and returns nil or an error chosen by the
// harness; after Close every ReadMessage fails with io.EOF and every WriteMessage with errZZClosed.
type zzFrame struct {
	data []byte
	err  error
}

// a request whose first argument byte is this marker is answered with an empty reply by the
// auto-answering stub server (a handler whose reply encodes to zero bytes)
const zzEmptyReplyMarker = 0xEE

const zzNoStreamMethod = "zz: no such stream method"

var errZZWrite = errors.New("zz: write failed")
var errZZRead = errors.New("zz: read failed")

type zzMsgs struct {
	in       chan zzFrame
	closedCh chan struct{}
	mu       sync.Mutex
	closed   bool
	writes   [][]byte
	out      chan []byte // optional: written frames are also sent here (capacity must suffice)
	writeErr func(n int) error
	nWrites  int
	nCalls   int // written frames without upgrade byte (unary calls)
	nCloses  int
	yieldW   bool
	addr     string
	auto     bool // answer every request at once as a correct server would (ping: empty; call: 'R'+args)
	autoPing bool // answer heartbeats at once, leave everything else to the harness (written to out)
	// autoStreams: with auto, play a correct server for every request form: an open-stream request is
	// acknowledged for method S.Watch and answered with an error for any other method, a close-stream
	// request is acknowledged, a stream message is not answered
	autoStreams bool
	// lateWriteErr: the frame is written (and, with auto, answered) and the write is then reported as
	// failed all the same (an error that surfaces after the bytes have left)
	lateWriteErr func(n int) error
	closeErr     error // what Close reports (a TLS close_notify that cannot be written, ...); the socket is closed all the same
}

func newZZMsgs(capIn int) *zzMsgs {
	return &zzMsgs{in: make(chan zzFrame, capIn), closedCh: make(chan struct{}, 1), yieldW: true}
}

func (m *zzMsgs) ReadMessage(buf []byte) ([]byte, error) {
	select {
	case f := <-m.in:
		if f.err != nil {
			return nil, f.err
		}
		if cap(buf) >= len(f.data) {
			p := buf[:len(f.data)]
			copy(p, f.data)
			return p, nil
		}
		p := make([]byte, len(f.data))
		copy(p, f.data)
		return p, nil
	case <-m.closedCh:
		return nil, io.EOF
	}
}

func (m *zzMsgs) WriteMessage(b []byte) error {
	if m.yieldW {
		vYield() // the write takes time: anything may happen before it completes
	}
	m.mu.Lock()
	if m.closed {
		m.mu.Unlock()
		return io.EOF
	}
	n := m.nWrites
	m.nWrites++
	var err error
	if m.writeErr != nil {
		err = m.writeErr(n)
	}
	if err == nil {
		c := append([]byte(nil), b...)
		m.writes = append(m.writes, c)
		isPing := false
		if m.autoPing {
			var r pbRequest
			r.Unmarshal(c)
			if len(r.Upgrade) == 1 && r.Upgrade[0] == zzUpgPing {
				isPing = true
				m.in <- zzFrame{data: zzResponse(r.Seq, "", nil)}
			}
		}
		if m.out != nil && !isPing {
			m.out <- c
		}
		if m.auto {
			var r pbRequest
			r.Unmarshal(c)
			if len(r.Upgrade) == 0 {
				m.nCalls++
			}
			var reply []byte
			if len(r.Upgrade) == 0 && !(len(r.Args) > 0 && r.Args[0] == zzEmptyReplyMarker) {
				reply = zzReplyFor(r.Args)
			}
			errText := ""
			answer := true
			if m.autoStreams && len(r.Upgrade) == 1 {
				switch r.Upgrade[0] {
				case zzUpgOpenStream:
					if r.ServiceMethod != "S.Watch" {
						errText = zzNoStreamMethod
					}
				case zzUpgStreaming:
					answer = false
				}
			}
			if answer {
				m.in <- zzFrame{data: zzResponse(r.Seq, errText, reply)}
			}
		}
	}
	if err == nil && m.lateWriteErr != nil {
		if err = m.lateWriteErr(n); err != nil {
			m.mu.Unlock()
			vYield() // the answer may be read and processed before the writer learns of the failure
			return err
		}
	}
	m.mu.Unlock()
	return err
}

func (m *zzMsgs) Close() error {
	m.mu.Lock()
	m.nCloses++
	if !m.closed {
		m.closed = true
		close(m.closedCh)
	}
	m.mu.Unlock()
	return m.closeErr
}

// deliver hands one frame to the reader; eof makes the next read fail.
func (m *zzMsgs) deliver(b []byte) { m.in <- zzFrame{data: b} }
func (m *zzMsgs) fail(err error)   { m.in <- zzFrame{err: err} }

// zzResponse builds a response frame with the real default-header encoder.
func zzResponse(seq uint64, errText string, reply []byte) []byte {
	res := &pbResponse{Seq: seq, Error: errText, Reply: reply}
	b, _ := res.Marshal()
	return b
}

// zzRequest builds a request frame with the real default-header encoder.
func zzRequest(seq uint64, upg []byte, method string, args []byte) []byte {
	req := &pbRequest{Seq: seq, Upgrade: upg, ServiceMethod: method, Args: args}
	b, _ := req.Marshal()
	return b
}
