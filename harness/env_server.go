package rpc

import (
	"context"
	"errors"
	"io"
	"sync"
)

// zzExec is one handler execution recorded by the harness service.
type zzExec struct {
	method string
	args   []byte // the slice the handler was given (retained: C11 checks it is never mutated)
	snap   []byte // copy of its contents at execution time
}

type zzLog struct {
	mu      sync.Mutex
	execs   []zzExec
	running int
	overlap bool
}

func (l *zzLog) enter(method string, args []byte) {
	l.mu.Lock()
	l.running++
	if l.running > 1 {
		l.overlap = true
	}
	l.execs = append(l.execs, zzExec{method: method, args: args, snap: append([]byte(nil), args...)})
	l.mu.Unlock()
}

func (l *zzLog) leave() {
	l.mu.Lock()
	l.running--
	l.mu.Unlock()
}

var errZZHandler = errors.New("handler failed")

// ZZSvc is the harness service; one method per handler shape the server distinguishes
// (reply-out, return-out, with context, failing, stream). The reply is a function of the
// arguments (0x52 'R' followed by the argument bytes) so that misrouting is visible.
type ZZSvc struct {
	log      *zzLog
	yield    bool
	streamFn func(st *ZZStream)
	gate     chan struct{}
}

func zzReplyFor(args []byte) []byte { return append([]byte{0x52}, args...) }

func (s *ZZSvc) Echo(req *[]byte, res *[]byte) error {
	s.log.enter("Echo", *req)
	if s.yield {
		vYield()
	}
	*res = zzReplyFor(*req)
	s.log.leave()
	return nil
}

func (s *ZZSvc) EchoRet(req *[]byte) (*[]byte, error) {
	s.log.enter("EchoRet", *req)
	if s.yield {
		vYield()
	}
	r := zzReplyFor(*req)
	s.log.leave()
	return &r, nil
}

func (s *ZZSvc) EchoCtx(ctx context.Context, req *[]byte, res *[]byte) error {
	s.log.enter("EchoCtx", *req)
	if s.yield {
		vYield()
	}
	*res = zzReplyFor(*req)
	s.log.leave()
	return nil
}

// BadReply has a reply type the body codec cannot encode (the codec reports an error).
func (s *ZZSvc) BadReply(req *[]byte, res *int) error {
	s.log.enter("BadReply", *req)
	*res = 7
	s.log.leave()
	return nil
}

func (s *ZZSvc) Fail(req *[]byte, res *[]byte) error {
	s.log.enter("Fail", *req)
	s.log.leave()
	return errZZHandler
}

// ZZStream is the stream handler's argument type (implements SetStream).
type ZZStream struct {
	s Stream
}

func (z *ZZStream) Connect(stream Stream) error {
	z.s = stream
	return nil
}

func (s *ZZSvc) Watch(st *ZZStream) error {
	s.log.enter("Watch", nil)
	if s.streamFn != nil {
		s.streamFn(st)
	}
	s.log.leave()
	return nil
}

// zzNewServer builds a server with the harness service registered and the given modes.
func zzNewServer(log *zzLog, pipelining, directIO, noCopy, shared bool) (*Server, *ZZSvc) {
	s := NewServer()
	s.SetLogLevel(OffLogLevel)
	svc := &ZZSvc{log: log}
	s.RegisterName("S", svc)
	s.pipelining, s.directIO, s.noCopy, s.shared = pipelining, directIO, noCopy, shared
	return s, svc
}

const (
	zzUpgNone        = 0
	zzUpgPing        = 0xE0 // NoRequest|NoResponse|Heartbeat
	zzUpgOpenStream  = 0xC8
	zzUpgStreaming   = 0x50 // NoResponse|Stream=2
	zzUpgCloseStream = 0xD8
)

func zzUpgBytes(b byte) []byte {
	if b == 0 {
		return nil
	}
	return []byte{b}
}

// zzServeScript runs the real ServeCodec over a stub socket fed with the given frames followed by
// EOF, and returns the socket (its write log holds the responses) once ServeCodec has returned.
func zzDecodeResponses(m *zzMsgs) []pbResponse { return zzDecodeResponsesEnc(m, nil) }

// zzDecodeResponsesEnc decodes the write log with the header encoder the server was given.
func zzDecodeResponsesEnc(m *zzMsgs, enc Encoder) []pbResponse {
	var out []pbResponse
	for _, w := range m.writes {
		var r pbResponse
		if enc == nil {
			r.Unmarshal(w)
		} else {
			res := enc.NewResponse()
			res.Reset()
			enc.NewCodec().Unmarshal(w, res)
			r = pbResponse{Seq: res.GetSeq(), Error: res.GetError(), Reply: res.GetReply()}
		}
		out = append(out, r)
	}
	return out
}

// zzRequestEnc builds a request frame with the given header encoder (nil: built-in default).
func zzRequestEnc(enc Encoder, seq uint64, upg []byte, method string, args []byte) []byte {
	if enc == nil {
		return zzRequest(seq, upg, method, args)
	}
	req := enc.NewRequest()
	req.SetSeq(seq)
	req.SetUpgrade(upg)
	req.SetServiceMethod(method)
	req.SetArgs(args)
	b, _ := enc.NewCodec().Marshal(nil, req)
	return b
}

var _ = io.EOF

// zzBytesCodec is BYTESCodec with the error contract the other body codecs have (GOGOPB, CODE,
// MSGP return an error for a value of the wrong type instead of panicking in a type assertion).
// Like BYTESCodec it keeps the alias to its input (decoded value = the data slice itself).
type zzBytesCodec struct{}

var errZZNotBytes = errors.New("is not *[]byte")

func (c *zzBytesCodec) Marshal(buf []byte, v interface{}) ([]byte, error) {
	if p, ok := v.(*[]byte); ok {
		return *p, nil
	}
	return nil, errZZNotBytes
}

func (c *zzBytesCodec) Unmarshal(data []byte, v interface{}) error {
	if p, ok := v.(*[]byte); ok {
		*p = data
		return nil
	}
	return errZZNotBytes
}

// zzResponseEnc builds a response frame with the given header encoder (nil: built-in default).
func zzResponseEnc(enc Encoder, seq uint64, errText string, reply []byte) []byte {
	if enc == nil {
		return zzResponse(seq, errText, reply)
	}
	res := enc.NewResponse()
	res.SetSeq(seq)
	res.SetError(errText)
	res.SetReply(reply)
	b, _ := enc.NewCodec().Marshal(nil, res)
	return b
}
