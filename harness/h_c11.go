package rpc

// ---- C11: data handed to user code is never mutated afterwards (stream messages, user buffers) ----

// zzH_C11m: stream.ReadMessage with a caller-supplied buffer of any capacity relative to the
// message: the message handed to user code equals what was queued, stays equal after two further
// messages have been queued and read through the same (reused) pool buffers, and nothing is written
// to the caller's buffer beyond the message length.
func zzH_C11m() {
	vSetPoolReuse(true)
	n := 1 + vChoose("msglen", 3) // 1..3
	st := &stream{noCopy: false}
	st.cond.L = &st.mut
	var handed [][]byte
	st.unmarshal = func(data []byte, v interface{}) error {
		*v.(*[]byte) = data // aliasing body codec (BYTES / pb bytes fields / code)
		handed = append(handed, data)
		return nil
	}
	push := func(name string, k int) []byte {
		content := vBytesN(name, k)
		val := GetBuffer(k) // what the library does for an incoming stream message
		copy(val, content)
		e := getEvent()
		e.Value = val
		st.trigger(e)
		return content
	}
	c1 := push("m1", n)
	var b []byte
	capChoice := vChoose("usercap", 4)
	switch capChoice {
	case 1:
		b = vBufferN("ub", n)
	case 2:
		b = vBufferN("ub", n+1)
	case 3:
		b = vBufferN("ub", n+3)
	}
	stale := append([]byte(nil), b[:cap(b)]...)
	var msg1 []byte
	vAssert(st.ReadMessage(b, &msg1) == nil, "read-ok")
	vAssert(vEqBytes(msg1, c1), "message-as-sent")
	snap := append([]byte(nil), msg1...)
	// two further messages flow through the same pools
	c2 := push("m2", n)
	var msg2 []byte
	st.ReadMessage(nil, &msg2)
	c3 := push("m3", n)
	var msg3 []byte
	st.ReadMessage(nil, &msg3)
	vAssert(vEqBytes(msg2, c2) && vEqBytes(msg3, c3), "later-messages-as-sent")
	vAssert(vEqBytes(msg1, snap) && vEqBytes(msg1, c1), "first-message-unchanged-after-further-traffic")
	if cap(b) > n {
		vAssert(&msg1[0] == &b[:1][0], "user-buffer-used-when-large-enough")
		vAssert(vEqBytes(b[n:cap(b)], stale[n:]), "nothing-written-beyond-reported-length")
	} else if cap(b) > 0 {
		vAssert(vEqBytes(b[:cap(b)], stale), "small-user-buffer-untouched")
	}
	vReach("end")
}
