package rpc

// ---- C11: data handed to user code is never mutated afterwards (stream messages, user buffers) ----

// zzH_C11m: stream.ReadMessage with a caller-supplied buffer of any capacity relative to the
// message: the message handed to user code equals what was queued, stays equal after two further
// messages have been queued and read through the same (reused) pool buffers, and nothing is written
// to the caller's buffer beyond the message length.
func zzH_C11m() {
	vSetPoolReuse(true)
	// 1..3, then a message that fills its pooled buffer exactly (len == cap, smallest size class 8)
	// and one just past that class
	n := [...]int{1, 2, 3, 8, 9}[vChoose("msglen", 5)]
	st := &stream{noCopy: false}
	st.cond.L = &st.mut
	var handed [][]byte
	st.unmarshal = func(data []byte, v interface{}) error {
		*v.(*[]byte) = data // aliasing body codec (BYTES / pb bytes fields / code)
		handed = append(handed, data)
		return nil
	}
	push := func(name string, k int) []byte {
		content := vBytesN(name, k)
		val := GetBuffer(k) // what the library does for an incoming stream message
		copy(val, content)
		e := getEvent()
		e.Value = val
		st.trigger(e)
		return content
	}
	c1 := push("m1", n)
	var b []byte
	capChoice := vChoose("usercap", 4)
	switch capChoice {
	case 1:
		b = vBufferN("ub", n)
	case 2:
		b = vBufferN("ub", n+1)
	case 3:
		b = vBufferN("ub", n+3)
	}
	stale := append([]byte(nil), b[:cap(b)]...)
	var msg1 []byte
	vAssert(st.ReadMessage(b, &msg1) == nil, "read-ok")
	vAssert(vEqBytes(msg1, c1), "message-as-sent")
	snap := append([]byte(nil), msg1...)
	// two further messages flow through the same pools
	c2 := push("m2", n)
	var msg2 []byte
	st.ReadMessage(nil, &msg2)
	c3 := push("m3", n)
	var msg3 []byte
	st.ReadMessage(nil, &msg3)
	vAssert(vEqBytes(msg2, c2) && vEqBytes(msg3, c3), "later-messages-as-sent")
	vAssert(vEqBytes(msg1, snap) && vEqBytes(msg1, c1), "first-message-unchanged-after-further-traffic")
	// The property does not say when the caller's buffer must be used (exact fit or not), only that
	// nothing is written beyond the reported length when it is, and nothing at all when it is not.
	if cap(b) > 0 {
		if &msg1[0] == &b[:1][0] {
			vAssert(vEqBytes(b[n:cap(b)], stale[n:]), "nothing-written-beyond-reported-length")
		} else {
			vAssert(vEqBytes(b[:cap(b)], stale), "unused-user-buffer-untouched")
		}
	}
	vReach("end")
}

// zzH_C11n: the NoCopy twin of C11m. A NoCopy reader accepts that its message aliases a pooled
// buffer, but two things still have to hold for the message it sees to be the one sent (C01) in
// every mode (C12): (i) the buffer is not back in the pool while the body codec is still decoding
// from it — the hook takes a buffer of the same size class from the pool in the middle of the
// decode, as any concurrent call on the connection may, and scribbles on it; (ii) the buffer goes
// back to the pool exactly once — four messages queued next, before any is read, must not share
// a backing array and must come out in the order queued. Both reader modes are driven (vChoose "nocopy").
func zzH_C11n() {
	vSetPoolReuse(true)
	// 1..3, then a message that fills its pooled buffer exactly (len == cap, smallest size class 8)
	// and one just past that class
	n := [...]int{1, 2, 3, 8, 9}[vChoose("msglen", 5)]
	st := &stream{noCopy: vChoose("nocopy", 2) == 1}
	st.cond.L = &st.mut
	var want []byte
	intact := true
	st.unmarshal = func(data []byte, v interface{}) error {
		other := GetBuffer(n) // concurrent traffic of the same size class during the decode
		if want != nil {
			for i := range other {
				other[i] = ^want[i]
			}
			if !vEqBytes(data, want) {
				intact = false
			}
		}
		*v.(*[]byte) = append([]byte(nil), data...) // a copying body codec
		PutBuffer(other)
		return nil
	}
	push := func(name string, k int) []byte {
		content := vBytesN(name, k)
		val := GetBuffer(k)
		copy(val, content)
		e := getEvent()
		e.Value = val
		st.trigger(e)
		return content
	}
	c1 := push("m1", n)
	want = c1
	var msg1 []byte
	vAssert(st.ReadMessage(nil, &msg1) == nil, "read-ok")
	vAssert(intact, "buffer-not-pooled-while-decoding")
	vAssert(vEqBytes(msg1, c1), "message-as-sent")
	// four messages in flight at once after the first buffer was released: none shares a buffer with
	// another, and they are read in the order queued (C09) — a burst longer than two is what a
	// swap-remove or ring-index slip in the queue needs in order to show
	c2 := push("m2", n)
	c3 := push("m3", n)
	c4 := push("m4", n)
	c5 := push("m5", n)
	var msg2, msg3, msg4, msg5 []byte
	want = nil
	st.ReadMessage(nil, &msg2)
	st.ReadMessage(nil, &msg3)
	st.ReadMessage(nil, &msg4)
	st.ReadMessage(nil, &msg5)
	vAssert(vEqBytes(msg2, c2) && vEqBytes(msg3, c3) && vEqBytes(msg4, c4) && vEqBytes(msg5, c5), "queued-messages-in-order-unshared")
	vReach("end")
}
