package rpc

import "io"

// ---- C02: every call completes exactly once ----

// zzH_C02: K asynchronous calls on one real Conn over the stub socket; the environment delivers a
// bounded script of frames (own / duplicate / unknown sequence numbers, with or without error text),
// a write may fail, the peer may disconnect or the read may fail, the client may Close.
func zzH_C02() {
	K := vParam("c02.K", 2)
	F := vParam("c02.F", 2)
	m := newZZMsgs(8)
	faults := 1
	m.writeErr = func(n int) error {
		if faults > 0 && vChoose("werr", 2) == 1 {
			faults--
			return errZZWrite
		}
		return nil
	}
	conn := NewConnWithCodec(NewClientCodec(&BYTESCodec{}, nil, m, 64))
	switch vChoose("mode", 3) {
	case 1:
		conn.directIO = true
		vTag("directIO")
	case 2:
		conn.SetPipelining(true)
		vTag("pipelining")
	}
	calls := make([]*Call, K)
	replies := make([][]byte, K)
	closedAtEnd := false
	vGo("issuer", func() {
		for i := 0; i < K; i++ {
			args := []byte{byte(i)}
			calls[i] = conn.Go("S.M", &args, &replies[i], make(chan *Call, 2))
		}
	})
	vGo("env", func() {
		for f := 0; f < F; f++ {
			switch vChoose("ev", 4) {
			case 0:
				m.deliver(zzResponse(uint64(vChoose("seq", K+1)), "", []byte{0xAA}))
			case 1:
				m.deliver(zzResponse(uint64(vChoose("seq", K+1)), "boom", nil))
			case 2:
				m.fail(io.EOF)
				return
			case 3:
				m.fail(errZZRead)
				return
			}
		}
		if vChoose("close", 2) == 1 {
			conn.Close()
		} else {
			m.fail(io.EOF)
		}
		vQuiesce()
		conn.Close() // whatever happened before (write errors included), Close closes the socket
		closedAtEnd = true
	})
	vAtEnd(func() {
		if closedAtEnd {
			vAssert(m.nCloses >= 1, "socket-closed")
		}
		vAssert(vBlocked() == 0, "no-goroutine-stuck")
		for i := 0; i < K; i++ {
			c := calls[i]
			if c == nil {
				continue
			}
			vAssertOn(len(c.Done) == 1, "exactly-once", c)
		}
		vReach("end")
	})
}

// zzH_C02r: a call is issued at the moment the connection ends (peer EOF or read error, no other
// traffic): whatever the interleaving of the sender's registration with the reader's final sweep, the
// call is completed exactly once.
func zzH_C02r() {
	m := newZZMsgs(8)
	conn := NewConnWithCodec(NewClientCodec(&zzBytesCodec{}, nil, m, 64))
	switch vChoose("mode", 3) {
	case 1:
		conn.directIO = true
		vTag("directIO")
	case 2:
		conn.SetPipelining(true)
		vTag("pipelining")
	}
	K := vParam("c02r.K", 2)
	cs := make([]*Call, K)
	replies := make([][]byte, K)
	args := []byte{0x61}
	vGo("caller", func() {
		for i := 0; i < K; i++ {
			cs[i] = conn.Go("S.M", &args, &replies[i], make(chan *Call, 2))
		}
	})
	if vChoose("cut", 2) == 0 {
		m.fail(io.EOF)
	} else {
		m.fail(errZZRead)
	}
	vAtEnd(func() {
		vAssert(vBlocked() == 0, "no-goroutine-stuck")
		for _, c := range cs {
			if c != nil {
				vAssertOn(len(c.Done) >= 1, "outstanding-call-completes", c)
				vAssertOn(len(c.Done) == 1, "exactly-once", c)
				vAssert(c.Error != nil, "outstanding-call-fails")
			}
		}
		vReach("end")
	})
}

// zzH_C02w: the write of a request fails while the connection's read side stays up (nothing else will
// ever complete the call): the call is completed, once, with the write error, and is no longer counted
// as outstanding - for every header encoder, mode and call form; a later call on the connection works.
func zzH_C02w() {
	m := newZZMsgs(8)
	var enc Encoder
	switch vChoose("header-encoder", 3) {
	case 1:
		enc = NewHeaderEncoder("pb")()
	case 2:
		enc = NewHeaderEncoder("code")()
	}
	conn := NewConnWithCodec(NewClientCodec(&zzBytesCodec{}, enc, m, 64))
	switch vChoose("mode", 3) {
	case 1:
		conn.directIO = true
	case 2:
		conn.SetPipelining(true)
	}
	m.writeErr = func(n int) error {
		if n == 0 {
			return errZZWrite
		}
		return nil
	}
	args := []byte{0x41}
	var reply []byte
	done := make(chan *Call, 4)
	var c *Call
	var err error
	returned := false
	form := vChoose("form", 3)
	vGo("caller", func() {
		switch form {
		case 0:
			c = conn.Go("S.Echo", &args, &reply, done)
		case 1:
			err = conn.Call("S.Echo", &args, &reply)
		case 2:
			err = conn.Ping()
		}
		returned = true
	})
	vQuiesce()
	vAssert(returned, "call-with-failed-write-completes")
	if returned {
		if form == 0 {
			vAssert(len(done) == 1 && c.Error == errZZWrite, "call-with-failed-write-completes")
		} else {
			vAssert(err == errZZWrite, "call-with-failed-write-completes")
		}
		vAssert(conn.NumCalls() == 0, "failed-request-not-counted-as-outstanding")
	}
	m.fail(io.EOF)
	vAtEnd(func() {
		vAssert(len(done) <= 1, "exactly-once")
		vReach("end")
	})
}
