package rpc

import "io"

// ---- client-side harness shared by C01 (client half), C02, C03, C05 (client half), C06 (client half) ----

// zzH_CLI: K asynchronous calls with symbolic arguments on one real Conn (real clientCodec, default
// header, aliasing body codec); the environment plays a correct server that answers the requests it
// has received in an order of its choosing, each either with the reply computed from that request's
// own arguments or with an error text; then the peer disconnects.
func zzH_CLI() {
	K := vParam("cli.K", 2)
	m := newZZMsgs(8)
	m.out = make(chan []byte, 8)
	var enc Encoder
	switch vChoose("header-encoder", vParam("cli.encoders", 1)) {
	case 1:
		enc = NewHeaderEncoder("pb")()
	case 2:
		enc = NewHeaderEncoder("code")()
	}
	conn := NewConnWithCodec(NewClientCodec(&zzBytesCodec{}, enc, m, 64))
	mode := vChoose("mode", 3+vParam("cli.both", 0))
	switch mode {
	case 1:
		conn.directIO = true
	case 2:
		conn.SetPipelining(true)
	case 3:
		// both options at once: still pipelining as far as ordering is concerned
		conn.directIO = true
		conn.SetPipelining(true)
		mode = 2
	}
	if vParam("cli.symseq", 0) == 1 {
		conn.seq = vU64("seq0")
	}
	calls := make([]*Call, K)
	args := make([][]byte, K)
	replies := make([][]byte, K)
	done := make(chan *Call, 10)
	for i := 0; i < K; i++ {
		// first byte: the issue index (lets the environment see the order on the wire)
		args[i] = append([]byte{byte(i)}, vBytesN("args", 1)...)
	}
	pings := vParam("cli.pings", 0) == 1 && enc == nil
	if pings {
		m.autoPing = true // heartbeats are answered at once (a server answers them from its decode worker)
	}
	vGo("issuer", func() {
		for i := 0; i < K; i++ {
			if pings && i > 0 && vChoose("ping-between", 2) == 1 {
				// a completed Ping between two calls leaves a hole in the outstanding sequence numbers
				vAssert(conn.Ping() == nil, "ping-ok")
			}
			if vParam("cli.forms", 1) == 2 && vChoose("form", 2) == 1 {
				calls[i] = conn.RoundTrip(&Call{ServiceMethod: "S.Echo", Args: &args[i], Reply: &replies[i], Done: done})
			} else {
				calls[i] = conn.Go("S.Echo", &args[i], &replies[i], done)
			}
		}
	})
	wireInOrder := true
	failWith := make([]string, K)
	emptyReply := make([]bool, K)
	unanswered := make([]bool, K)
	inOrder := true
	vGo("env", func() {
		// collect the K requests, then answer them in a chosen order
		type rq struct {
			seq  uint64
			args []byte
		}
		var got []rq
		for i := 0; i < K; i++ {
			f := <-m.out
			if enc == nil {
				var r pbRequest
				r.Unmarshal(f)
				got = append(got, rq{r.Seq, r.Args})
			} else {
				r := enc.NewRequest()
				r.Reset()
				enc.NewCodec().Unmarshal(f, r)
				got = append(got, rq{r.GetSeq(), r.GetArgs()})
			}
			if len(got[i].args) == 0 || got[i].args[0] != byte(i) {
				wireInOrder = false
			}
		}
		order := []int{0, 1, 2}[:K]
		if K == 2 && vChoose("order", 2) == 1 {
			order = []int{1, 0}
		}
		if K == 3 {
			order = [][]int{{0, 1, 2}, {0, 2, 1}, {1, 0, 2}, {1, 2, 0}, {2, 0, 1}, {2, 1, 0}}[vChoose("order", 6)]
		}
		// cli.partial=1: only the first few are answered before the connection ends
		answered := K
		if vParam("cli.partial", 0) == 1 {
			answered = vChoose("answered", K+1)
		}
		for x, i := range order {
			if x != i {
				inOrder = false // a server without pipelining: outside C05's premise
			}
			issue := i // which call this request belongs to (first argument byte)
			if len(got[i].args) > 0 && int(got[i].args[0]) < K {
				issue = int(got[i].args[0])
			}
			if x >= answered {
				unanswered[issue] = true
				continue
			}
			if vChoose("fail", 2) == 1 {
				failWith[issue] = "E" + string(rune('0'+issue))
				m.deliver(zzResponseEnc(enc, got[i].seq, failWith[issue], nil))
			} else if vParam("cli.empty", 1) == 1 && vChoose("emptyreply", 2) == 1 {
				// a handler whose reply encodes to zero bytes (e.g. an all-default pb message)
				emptyReply[issue] = true
				m.deliver(zzResponseEnc(enc, got[i].seq, "", nil))
			} else {
				m.deliver(zzResponseEnc(enc, got[i].seq, "", zzReplyFor(got[i].args)))
			}
		}
		// the connection ends after the client has gone quiet, or (cli.cut=1) right behind the last
		// response: responses received completely before the end still complete their calls
		if vChoose("eof-right-behind", 1+vParam("cli.cut", 0)) == 0 {
			vQuiesce()
		}
		m.fail(io.EOF)
	})
	vAtEnd(func() {
		vAssert(vBlocked() == 0, "no-goroutine-stuck")
		vAssert(len(done) == K, "each-call-signalled-once")
		for i := 0; i < K; i++ {
			c := calls[i]
			if unanswered[i] {
				vAssertOn(c.Error == ErrShutdown, "unanswered-call-fails-with-ErrShutdown", c)
			} else if failWith[i] != "" {
				vAssertOn(c.Error != nil && c.Error.Error() == failWith[i], "error-text-of-own-call", c)
				vAssert(len(replies[i]) == 0, "reply-untouched-on-error")
			} else {
				vAssertOn(c.Error == nil, "no-error", c)
				if emptyReply[i] {
					vAssert(len(replies[i]) == 0, "reply-of-own-args")
				} else {
					vAssert(vEqBytes(replies[i], zzReplyFor(args[i])), "reply-of-own-args")
				}
			}
		}
		if mode == 2 {
			// client pipelining: one goroutine's requests reach the wire in issue order, whatever the call form
			vAssert(wireInOrder, "pipelined-wire-order")
		}
		if mode == 2 && inOrder {
			// client pipelining against a server that answers in order: completions arrive in issue order
			for i := 0; i < K; i++ {
				c := <-done
				vAssert(c == calls[i], "pipelined-completion-order")
			}
		}
		vReach("end")
	})
}

// zzH_CLIb: blocking calls one after another on one connection (Call, CallWithContext and Ping recycle
// their Call objects through the pool, LIFO): replies of every length including empty ones, with and
// without a caller-supplied context buffer; each call gets exactly the reply computed from its own
// arguments.
func zzH_CLIb() {
	K := vParam("clib.K", 3)
	vSetPoolReuse(true)
	m := newZZMsgs(8)
	m.auto = true
	m.yieldW = false
	var body Codec = &zzBytesCodec{}
	if vParam("clib.real", 0) == 1 {
		body = &BYTESCodec{} // the library's own bytes codec (every value here is a *[]byte)
	}
	conn := NewConnWithCodec(NewClientCodec(body, nil, m, 64))
	// the caller may decode every reply into one and the same variable, keeping the earlier values
	var sharedReply []byte
	sameVar := vParam("clib.real", 0) == 1 && vChoose("same-reply-variable", 2) == 1
	switch vChoose("mode", 3) {
	case 1:
		conn.directIO = true
	case 2:
		conn.SetPipelining(true)
	}
	var keptBufs, keptSnaps [][]byte
	var keptReplies, keptReplySnaps [][]byte
	for i := 0; i < K; i++ {
		var args []byte
		empty := vChoose("empty-reply", 2) == 1
		if empty {
			args = []byte{zzEmptyReplyMarker, byte(i)}
		} else {
			args = append([]byte{byte(0x10 + i)}, vBytesN("args", 1+vChoose("len", 2)*2)...)
			if vParam("clib.big", 0) == 1 && vChoose("big", 2) == 1 {
				// a reply of several KiB (far beyond the 64-byte connection buffers; sizes from which an
				// implementation may start to pool reply memory)
				pad := make([]byte, 4200)
				for x := range pad {
					pad[x] = byte(x*7 + i)
				}
				args = append(args, pad...)
			}
		}
		var replyVar []byte
		rp := &replyVar
		if sameVar {
			rp = &sharedReply
		}
		var err error
		switch vChoose("form", 3) {
		case 0:
			err = conn.Call("S.Echo", &args, rp)
		case 1:
			ctx := &zzCtx{done: make(chan struct{})}
			if vChoose("ctxbuf", 2) == 1 {
				ctx.buf = vBufferN("cbuf", 8)
			}
			err = conn.CallWithContext(ctx, "S.Echo", &args, rp)
			if ctx.buf != nil {
				// the caller's buffer is the caller's again once the call has returned
				full := ctx.buf[:cap(ctx.buf)]
				keptBufs = append(keptBufs, full)
				keptSnaps = append(keptSnaps, append([]byte(nil), full...))
			}
		case 2:
			err = conn.Ping()
			vAssert(err == nil, "no-error")
			continue
		}
		reply := *rp
		vAssert(err == nil, "no-error")
		if empty {
			vAssert(len(reply) == 0, "reply-of-own-args")
		} else {
			vAssert(vEqBytes(reply, zzReplyFor(args)), "reply-of-own-args")
			// the caller keeps the reply (the aliasing body codec hands out the very bytes the
			// client decoded from) while further traffic flows on the connection
			keptReplies = append(keptReplies, reply)
			keptReplySnaps = append(keptReplySnaps, append([]byte(nil), reply...))
		}
	}
	for i := range keptBufs {
		vAssert(vEqBytes(keptBufs[i], keptSnaps[i]), "context-buffer-untouched-by-later-calls")
	}
	for i := range keptReplies {
		vAssert(vEqBytes(keptReplies[i], keptReplySnaps[i]), "reply-stable-after-later-traffic")
	}
	m.auto = false
	m.fail(io.EOF)
	vReach("end")
}

// zzH_CLIm: every call form mixed on ONE connection, one after another and in concurrent pairs, with
// the process-wide pools (Call objects, flag objects) reused LIFO: plain calls, pings, a stream that is
// opened, closed and closed again, a stream open that the server refuses. Every plain call gets the
// reply computed from its own arguments, pings and stream operations report what the server answered.
// Afterwards a call on a SECOND, healthy connection is outstanding while the first connection ends:
// it completes once, with its own reply, when its server answers (a completion that leaks from the
// dying connection through a recycled Call object would end it early with ErrShutdown).
func zzH_CLIm() {
	K := vParam("clim.K", 4)
	vSetPoolReuse(true)
	m := newZZMsgs(16)
	m.auto = true
	m.autoStreams = true
	m.yieldW = false
	conn := NewConnWithCodec(NewClientCodec(&zzBytesCodec{}, nil, m, 64))
	switch vChoose("mode", 3) {
	case 1:
		conn.directIO = true
	case 2:
		conn.SetPipelining(true)
	}
	nCall := 0
	var keptArgs, keptSnaps [][]byte
	call := func(c *Conn) {
		nCall++
		// the caller's argument slice has spare capacity as large as the connection's buffers: it
		// stays the caller's (an aliasing body codec hands this very slice to the client codec)
		args := make([]byte, 2, 64)
		args[0], args[1] = byte(0x20+nCall), byte(nCall)
		full := args[:cap(args)]
		keptArgs = append(keptArgs, full)
		keptSnaps = append(keptSnaps, append([]byte(nil), full...))
		var reply []byte
		err := c.Call("S.Echo", &args, &reply)
		vAssert(err == nil, "no-error")
		vAssert(vEqBytes(reply, zzReplyFor(args)), "reply-of-own-args")
		vAssert(len(args) == 2 && args[0] == byte(0x20+args[1]), "arguments-untouched")
	}
	badOpen := func() {
		s, err := conn.NewStream("S.Nope")
		vAssert(s == nil && err != nil && err.Error() == zzNoStreamMethod, "refused-stream-open-reports-server-error")
	}
	var st Stream
	pairs := vParam("clim.pairs", 0) == 1
	if pairs {
		// concurrent pairs are explored behind three fixed preludes only (schedule space)
		K = 1
		switch vChoose("prelude", 4) {
		case 1:
			s, err := conn.NewStream("S.Watch")
			vAssert(err == nil && s != nil, "stream-open-ok")
			vAssert(s.Close() == nil, "stream-close-ok")
		case 2:
			badOpen()
		case 3:
			// a call whose request is written and answered, and whose write is then reported as failed:
			// it ends once, with its reply or with the write error
			first := m.nWrites
			m.lateWriteErr = func(n int) error {
				if n == first {
					return errZZWrite
				}
				return nil
			}
			nCall++
			args := []byte{0x5f, 0x01}
			var reply []byte
			err := conn.Call("S.Echo", &args, &reply)
			vAssert(err == errZZWrite || (err == nil && vEqBytes(reply, zzReplyFor(args))), "late-write-error-ends-call-once")
			vQuiesce()
		}
	}
	for i := 0; i < K; i++ {
		op := 0
		if pairs {
			op = 5 + vChoose("pair", 2)
		} else {
			op = vChoose("op", 5)
		}
		switch op {
		case 0:
			call(conn)
		case 1:
			vAssert(conn.Ping() == nil, "ping-ok")
		case 2:
			vAssume(st == nil)
			s, err := conn.NewStream("S.Watch")
			vAssert(err == nil && s != nil, "stream-open-ok")
			st = s
		case 3:
			badOpen()
			if st == nil {
				// nothing is outstanding on the connection: a refused open leaves nothing behind (a
				// connection that still counts as busy is never reclaimed by a pool)
				vAssert(conn.NumCalls() == 0, "refused-stream-open-leaves-no-residue")
			}
		case 4:
			vAssume(st != nil)
			vAssert(st.Close() == nil, "stream-close-ok")
		case 5:
			fin := make(chan struct{}, 1)
			vGo("pinger", func() {
				vAssert(conn.Ping() == nil, "ping-ok")
				fin <- struct{}{}
			})
			vYield() // either caller may get going first, at any point of the other's progress
			call(conn)
			<-fin
		case 6:
			fin := make(chan struct{}, 1)
			vGo("opener", func() {
				badOpen()
				fin <- struct{}{}
			})
			vYield() // either caller may get going first, at any point of the other's progress
			call(conn)
			<-fin
		}
	}
	// every plain call went out as a plain call (a request that reaches the server with another
	// call's flags is answered without being executed)
	vAssert(m.nCalls == nCall, "request-sent-as-issued")
	// second connection: its call is outstanding while the first connection ends
	m2 := newZZMsgs(8)
	m2.out = make(chan []byte, 4)
	m2.yieldW = false
	conn2 := NewConnWithCodec(NewClientCodec(&zzBytesCodec{}, nil, m2, 64))
	args2 := []byte{0x77, 0x01}
	var reply2 []byte
	var err2 error
	returned := false
	vGo("other-conn-caller", func() {
		err2 = conn2.Call("S.Echo", &args2, &reply2)
		returned = true
	})
	vQuiesce()
	m.fail(io.EOF)
	vQuiesce()
	vAssert(!returned, "other-connection-unaffected")
	f := <-m2.out
	var r pbRequest
	r.Unmarshal(f)
	m2.deliver(zzResponse(r.Seq, "", zzReplyFor(r.Args)))
	vQuiesce()
	vAssert(returned && err2 == nil && vEqBytes(reply2, zzReplyFor(args2)), "other-connection-unaffected")
	m2.fail(io.EOF)
	vAtEnd(func() {
		vAssert(vBlocked() == 0, "no-goroutine-stuck")
		for i := range keptArgs {
			vAssert(vEqBytes(keptArgs[i], keptSnaps[i]), "arguments-untouched")
		}
		vReach("end")
	})
}
