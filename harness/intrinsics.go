package rpc

// Harness intrinsics. The symbolic engine (verif/engine) intercepts every call to these functions
// by name and never executes the bodies below; the bodies are what a *native* replay runs: they
// read the solver's assignment from the replay file named by $ZZ_REPLAY, so that the same harness
// function can be executed against the natively compiled code.

import (
	"encoding/json"
	"fmt"
	"os"
	"runtime"
	"strconv"
	"strings"
	"sync"
	"time"
)

type zzReplayFile struct {
	Harness string                 `json:"harness"`
	Inputs  map[string]interface{} `json:"inputs"`
	Kinds   map[string]string      `json:"kinds"`
}

var zz struct {
	mu      sync.Mutex
	loaded  bool
	file    zzReplayFile
	count   map[string]int
	failed  []string
	reached map[string]bool
	atEnd   []func()
	wg      sync.WaitGroup
	live    int
	jitter  uint64
}

func zzLoad() {
	if zz.loaded {
		return
	}
	zz.loaded = true
	zz.count = map[string]int{}
	zz.reached = map[string]bool{}
	if p := os.Getenv("ZZ_REPLAY"); p != "" {
		b, err := os.ReadFile(p)
		if err != nil {
			panic(err)
		}
		if err := json.Unmarshal(b, &zz.file); err != nil {
			panic(err)
		}
	}
}

func zzKey(name string) string {
	zz.mu.Lock()
	defer zz.mu.Unlock()
	zzLoad()
	zz.count[name]++
	return name + "#" + strconv.Itoa(zz.count[name])
}

func zzVal(key string) uint64 {
	zz.mu.Lock()
	defer zz.mu.Unlock()
	v, ok := zz.file.Inputs[key]
	if !ok {
		return 0
	}
	switch x := v.(type) {
	case float64:
		return uint64(x)
	case string:
		u, _ := strconv.ParseUint(x, 10, 64)
		return u
	}
	return 0
}

func vU64(name string) uint64 { return zzVal(zzKey(name)) }
func vInt(name string) int    { return int(zzVal(zzKey(name))) }
func vI64(name string) int64  { return int64(zzVal(zzKey(name))) }
func vByte(name string) byte  { return byte(zzVal(zzKey(name))) }
func vBool(name string) bool  { return zzVal(zzKey(name)) != 0 }

func vChoose(name string, n int) int {
	k := int(zzVal(zzKey(name)))
	if k >= n {
		k = 0
	}
	return k
}

func zzBytes(name string, def int) []byte {
	key := zzKey(name)
	zz.mu.Lock()
	kind := zz.file.Kinds[key]
	zz.mu.Unlock()
	n := def
	if strings.HasPrefix(kind, "bytes:") {
		n, _ = strconv.Atoi(kind[6:])
	}
	b := make([]byte, n)
	for i := range b {
		b[i] = byte(zzVal(key + "[" + strconv.Itoa(i) + "]"))
	}
	return b
}

func vBytes(name string, max int) []byte  { return zzBytes(name, 0) }
func vBytesN(name string, n int) []byte   { return zzBytes(name, n) }
func vString(name string, max int) string { return string(zzBytes(name, 0)) }
func vStringN(name string, n int) string  { return string(zzBytes(name, n)) }
func vBuffer(name string, max int) []byte { return zzBytes(name, 0)[:0] }
func vBufferN(name string, n int) []byte  { return zzBytes(name, n)[:0] }
func vConcrete(x int) int                 { return x }

func vAssume(c bool) {
	if !c {
		zz.mu.Lock()
		zz.failed = append(zz.failed, "ASSUME-FALSE")
		zz.mu.Unlock()
		fmt.Println("ZZ-ASSUME-FALSE")
	}
}

func vAssert(c bool, label string) {
	if !c {
		zz.mu.Lock()
		zz.failed = append(zz.failed, label)
		zz.mu.Unlock()
		fmt.Println("ZZ-ASSERT-FAILED " + label)
	}
}

func vAssertOn(c bool, label string, obj interface{}) { vAssert(c, label) }

func vReach(label string) {
	zz.mu.Lock()
	zzLoad()
	zz.reached[label] = true
	zz.mu.Unlock()
}

func vTag(s string) {}
func vLog(s string) {}

func vEqBytes(a, b []byte) bool       { return string(a) == string(b) }
func vEqString(a, b string) bool      { return a == b }
func vSetPoolReuse(bool)              {}
func vSetMapOrder(bool)               {}
func vSetTimerBudget(int)             {}
func vSetTimersAnywhere(bool)         {}
func vParam(name string, def int) int { return def }
func vSymbolic() bool                 { return false }
func vDaemon()                        {}
func vCallers(obj interface{}) string { return "" }

func vGo(name string, f func()) {
	zz.wg.Add(1)
	go func() {
		defer zz.wg.Done()
		f()
	}()
}

// vYield: in a native replay a yield is a short pseudo-random pause (seeded by $ZZ_JITTER), so that
// repeated runs perturb the interleaving around the environment's time-consuming operations.
func vYield() {
	zz.mu.Lock()
	zzLoad()
	if zz.jitter == 0 {
		if s := os.Getenv("ZZ_JITTER"); s != "" {
			n, _ := strconv.Atoi(s)
			zz.jitter = uint64(n)*2654435761 + 1
		} else {
			zz.jitter = 1
		}
	}
	zz.jitter = zz.jitter*6364136223846793005 + 1442695040888963407
	d := time.Duration((zz.jitter>>33)%400) * time.Microsecond
	zz.mu.Unlock()
	runtime.Gosched()
	if os.Getenv("ZZ_JITTER") != "" {
		time.Sleep(d)
	}
}

// vQuiesce waits until the system under test has (very probably) nothing left to do.
func vQuiesce() { time.Sleep(30 * time.Millisecond) }

func vAtEnd(f func()) {
	zz.mu.Lock()
	zz.atEnd = append(zz.atEnd, f)
	zz.mu.Unlock()
}

func vBlocked() int         { return zz.live }
func vBlockedNames() string { return "" }

// zzFinish waits for the harness goroutines (bounded) and runs the vAtEnd callbacks.
func zzFinish(wait time.Duration) []string {
	done := make(chan struct{})
	go func() { zz.wg.Wait(); close(done) }()
	select {
	case <-done:
		zz.live = 0
	case <-time.After(wait):
		zz.live = 1
	}
	zz.mu.Lock()
	fs := zz.atEnd
	zz.mu.Unlock()
	for _, f := range fs {
		f()
	}
	zz.mu.Lock()
	defer zz.mu.Unlock()
	return zz.failed
}
func vSetClockStep(int) {}
func vSetOneShotTimers(bool) {}
func vSetOneShotMax(int) {}
