package rpc

import "io"

// ---- server-side harness shared by C01 (server half), C04, C05 (server half), C06 (server half),
// C11 (handler arguments) and C12 (mode independence) ----

type zzReqSpec struct {
	seq    uint64
	kind   int // 0 Echo, 1 EchoRet, 2 EchoCtx, 3 Fail, 4 unknown method, 5 ping, 6 undecodable args
	args   []byte
	method string
}

var zzKindMethod = []string{"S.Echo", "S.EchoRet", "S.EchoCtx", "S.Fail", "S.Nope", "", "S.Watch", "S.Echo", "S.BadReply"}

// kind 7: a request the server rejects (upgrade byte 0x40 = NoResponse alone is not a combination
// the protocol uses): dropped without execution and without response.

// zzH_SRV: N request frames (kinds chosen from the menu, argument bytes symbolic) served by the real
// ServeCodec in a chosen mode; frames arrive together or one by one; the peer disconnects after the
// server has gone quiet. The oracle is independent of the mode.
func zzH_SRV() {
	n := vParam("srv.N", 2)
	kinds := vParam("srv.kinds", 6)
	log := &zzLog{}
	pipelining := vChoose("pipelining", 2) == 1
	directIO := vChoose("directIO", 2) == 1
	shared := vChoose("shared", 2) == 1
	if vParam("srv.pipelining", 0) == 1 {
		pipelining = true
	}
	// NoCopy hands the handler the read buffer itself; it stays the handler's until the handler returns
	noCopy := vParam("srv.nocopy", 0) == 1 && vChoose("noCopy", 2) == 1
	s, svc := zzNewServer(log, pipelining, directIO, noCopy, shared)
	svc.yield = true
	exact := vParam("srv.exactfit", 0) == 1
	bufSize := []int{8, 64, 16, 32}[vChoose("bufsize", vParam("srv.bufsizes", 2))]
	if exact {
		bufSize = []int{16, 32}[vChoose("bufsize-exact", 2)]
	}
	s.SetBufferSize(bufSize)
	m := newZZMsgs(8)
	m.yieldW = vParam("srv.yieldw", 0) == 1 // srv.yieldw=1: a response write takes time (other goroutines run meanwhile)
	var enc Encoder
	switch vChoose("header-encoder", vParam("srv.encoders", 1)) {
	case 1:
		enc = NewHeaderEncoder("pb")()
	case 2:
		enc = NewHeaderEncoder("code")()
	}
	codec := NewServerCodec(&zzBytesCodec{}, enc, m, true, bufSize)
	reqs := make([]zzReqSpec, n)
	for i := 0; i < n; i++ {
		k := vChoose("kind", kinds)
		if vParam("srv.menu", 0) == 1 {
			k = []int{0, 7, 5}[k%3] // directed menu: plain call, rejected frame, ping
		}
		if vParam("srv.menu", 0) == 2 {
			k = []int{8, 3, 0}[k%3] // directed menu: unencodable reply, failing handler, plain call
		}
		r := zzReqSpec{seq: uint64(i + 1), kind: k, method: zzKindMethod[k]}
		if k != 5 {
			// 1 or 10 bytes; with srv.arglens=4 also 4 and 20 bytes, which make the request frame exactly
			// 16 resp. 32 bytes long = the capacity of the 16/32-byte read buffers
			if exact {
				// request frame = 12 + len(args) bytes: exactly the capacity of the 16/32-byte read
				// buffer; contents concrete and distinct per request
				r.args = make([]byte, []int{4, 20}[vChoose("arglen-exact", 2)])
				for x := range r.args {
					r.args[x] = byte(0x41 + i)
				}
			} else if vParam("srv.concrete", 0) == 1 {
				// concrete, distinct contents: no forking on argument equality (directed runs)
				r.args = make([]byte, []int{1, 10, 4, 20}[vChoose("arglen", vParam("srv.arglens", 2))])
				for x := range r.args {
					r.args[x] = byte(0x41 + i)
				}
			} else {
				r.args = vBytesN("args", []int{1, 10, 4, 20}[vChoose("arglen", vParam("srv.arglens", 2))])
			}
		}
		reqs[i] = r
	}
	vGo("server", func() { s.ServeCodec(codec) })
	// arrival pattern: one by one (the server goes quiet in between), all at once, or (srv.pacing=1)
	// one at a time without waiting for the server (frames interleave with running handlers)
	batch := vChoose("batch", 2+vParam("srv.pacing", 0))
	together := batch >= 1
	// srv.firstalone=1: the first frame is dealt with completely before the others arrive together
	// (what it left behind in the pools meets two requests in flight at once)
	firstAlone := vParam("srv.firstalone", 0) == 1
	for ri, r := range reqs {
		var upg []byte
		if r.kind == 5 {
			upg = zzUpgBytes(zzUpgPing)
		}
		if r.kind == 7 {
			upg = zzUpgBytes(0x40)
		}
		m.deliver(zzRequestEnc(enc, r.seq, upg, r.method, r.args))
		if !together || (firstAlone && ri == 0) {
			vQuiesce()
		}
		if batch == 2 {
			vYield()
		}
	}
	// the peer's write side ends after the server has gone quiet, or (srv.cut=1) right behind the last
	// request: the requests already received are still executed and answered, in the same order
	if vChoose("eof-right-behind", 1+vParam("srv.cut", 0)) == 0 {
		vQuiesce()
	}
	m.fail(io.EOF)
	vAtEnd(func() {
		vAssert(vBlocked() == 0, "server-goroutines-exit")
		res := zzDecodeResponsesEnc(m, enc)
		nrej := 0
		for _, r := range reqs {
			if r.kind == 7 {
				nrej++
			}
		}
		vAssert(len(res) == n-nrej, "one-response-per-request")
		nexec := 0
		for i, r := range reqs {
			// responses
			cnt := 0
			for j := range res {
				if res[j].Seq == r.seq {
					cnt++
					switch r.kind {
					case 0, 1, 2:
						vAssert(res[j].Error == "", "reply-no-error")
						vAssert(vEqBytes(res[j].Reply, zzReplyFor(r.args)), "reply-of-own-args")
					case 3:
						vAssert(res[j].Error == "handler failed", "handler-error-text")
					case 4:
						vAssert(res[j].Error == "can't find service S.Nope", "unknown-method-text")
					case 5:
						vAssert(res[j].Error == "" && len(res[j].Reply) == 0, "ping-empty")
					case 6:
						vAssert(res[j].Error == "is not *[]byte", "undecodable-args-text")
					case 8:
						vAssert(res[j].Error == "is not *[]byte", "unencodable-reply-text")
					}
					if pipelining && r.kind != 5 {
						// position among the responses to non-ping requests = position among the non-ping requests
						// (a ping is answered by the decode worker and may overtake: pings are not executed)
						pj, pi := 0, 0
						for x := 0; x < j; x++ {
							if !zzIsPingSeq(reqs, res[x].Seq) {
								pj++
							}
						}
						for x := 0; x < i; x++ {
							if reqs[x].kind != 5 && reqs[x].kind != 7 {
								pi++
							}
						}
						vAssert(pj == pi, "responses-in-arrival-order")
					}
				}
			}
			if r.kind == 7 {
				vAssert(cnt == 0, "rejected-request-not-answered")
				continue
			}
			vAssert(cnt == 1, "answered-exactly-once")
			// executions
			if r.kind <= 3 || r.kind == 8 {
				nexec++
			}
		}
		for _, r := range reqs {
			if r.kind <= 3 {
				ex := 0
				for e := range log.execs {
					if vEqBytes(log.execs[e].snap, r.args) && log.execs[e].method == zzKindMethod[r.kind][2:] {
						ex++
					}
				}
				vAssert(ex >= 1, "executed-with-own-args")
			}
		}
		vAssert(len(log.execs) == nexec, "no-extra-or-missing-execution")
		if !noCopy {
			for e := range log.execs {
				vAssert(vEqBytes(log.execs[e].args, log.execs[e].snap), "handler-args-stable")
			}
		}
		if pipelining {
			vAssert(!log.overlap, "pipelined-no-overlap")
			// execution order = arrival order
			e := 0
			for _, r := range reqs {
				if r.kind <= 3 || r.kind == 8 {
					vAssert(e < len(log.execs) && vEqBytes(log.execs[e].snap, r.args), "pipelined-execution-order")
					e++
				}
			}
		}
		vReach("end")
	})
}

func zzIsPingSeq(reqs []zzReqSpec, seq uint64) bool {
	for _, r := range reqs {
		if r.seq == seq {
			return r.kind == 5
		}
	}
	return false
}

// zzH_SRVp: poll mode with pipelining: the two closures Server.listen hands to ServeMessages are
// driven by two netpoll workers on ONE connection; requests must be executed and answered in arrival
// order (the receive lock makes "read a request" and "hand it to the per-connection queue" atomic).
func zzH_SRVp() {
	n := vParam("srv.N", 2)
	log := &zzLog{}
	directIO := vChoose("directIO", 2) == 1
	s, svc := zzNewServer(log, true, directIO, false, false)
	s.poll = true
	svc.yield = vParam("srvp.yield", 0) == 1
	m := newZZMsgs(8)
	m.yieldW = false
	lis := newZZListener()
	lis.poll = []*zzMsgs{m}
	lis.workers = 2
	args := make([][]byte, n)
	for i := 0; i < n; i++ {
		args[i] = []byte{byte(0x41 + i)}
		m.deliver(zzRequest(uint64(i+1), nil, "S.Echo", args[i]))
	}
	vGo("listen", func() {
		s.listen(&zzSocket{lis: lis}, "zz", func(messages socket_Messages) ServerCodec {
			return NewServerCodec(&zzBytesCodec{}, nil, messages, s.directIO, 64)
		})
	})
	vQuiesce()
	m.fail(io.EOF)
	m.fail(io.EOF)
	vQuiesce()
	s.Close()
	vAtEnd(func() {
		res := zzDecodeResponses(m)
		vAssert(len(res) == n, "one-response-per-request")
		for i := 0; i < len(res) && i < n; i++ {
			vAssert(res[i].Seq == uint64(i+1), "responses-in-arrival-order")
		}
		vAssert(len(log.execs) == n, "no-extra-or-missing-execution")
		for i := 0; i < len(log.execs) && i < n; i++ {
			vAssert(vEqBytes(log.execs[i].snap, args[i]), "pipelined-execution-order")
		}
		vAssert(!log.overlap, "pipelined-no-overlap")
		vReach("end")
	})
}

// ZZGate is a handler that blocks until the harness opens its gate.
func (s *ZZSvc) Gate(req *[]byte, res *[]byte) error {
	s.log.enter("Gate", *req)
	<-s.gate
	*res = zzReplyFor(*req)
	s.log.leave()
	return nil
}

// zzH_SRVp2: poll mode with pipelining and TWO connections: a call on connection A blocks in its
// handler until the call on connection B has been answered. Connections are independent, so B must be
// answered while A is still executing.
func zzH_SRVp2() {
	log := &zzLog{}
	directIO := vChoose("directIO", 2) == 1
	s, svc := zzNewServer(log, true, directIO, false, false)
	s.poll = vChoose("poll", 2) == 1
	svc.gate = make(chan struct{})
	ma, mb := newZZMsgs(8), newZZMsgs(8)
	ma.yieldW, mb.yieldW = false, false
	mb.out = make(chan []byte, 4)
	lis := newZZListener()
	if s.poll {
		lis.poll = []*zzMsgs{ma, mb}
	} else {
		lis.conns <- &zzConn{m: ma}
		lis.conns <- &zzConn{m: mb}
	}
	vGo("listen", func() {
		s.listen(&zzSocket{lis: lis}, "zz", func(messages socket_Messages) ServerCodec {
			return NewServerCodec(&zzBytesCodec{}, nil, messages, s.directIO, 64)
		})
	})
	ma.deliver(zzRequest(1, nil, "S.Gate", []byte{0x41}))
	vQuiesce()
	mb.deliver(zzRequest(1, nil, "S.Echo", []byte{0x42}))
	f := <-mb.out // B's response arrives although A's handler is still blocked
	var rb pbResponse
	rb.Unmarshal(f)
	vAssert(rb.Seq == 1 && vEqBytes(rb.Reply, []byte{0x52, 0x42}), "other-connection-served-while-one-is-busy")
	close(svc.gate)
	vQuiesce()
	ma.fail(io.EOF)
	mb.fail(io.EOF)
	vQuiesce()
	s.Close()
	vAtEnd(func() {
		ra := zzDecodeResponses(ma)
		vAssert(len(ra) == 1 && vEqBytes(ra[0].Reply, []byte{0x52, 0x41}), "reply-of-own-args")
		vReach("end")
	})
}

// zzH_SRVn: NoCopy server (the handler is handed the read buffer itself, which stays its own until it
// returns), pool buffers large enough for the frames, slow handlers, frames arriving one at a time
// while earlier handlers are still running, LIFO buffer reuse: every reply must still be computed from
// the request's own arguments.
func zzH_SRVn() {
	n := vParam("srvn.N", 3)
	vSetPoolReuse(true)
	log := &zzLog{}
	full := vParam("srvn.full", 0)
	s, svc := zzNewServer(log, vChoose("pipelining", 2) == 1, vChoose("directIO", 2) == 1, true, vChoose("shared", 1+full) == 1)
	svc.yield = true
	s.SetBufferSize(64)
	m := newZZMsgs(8)
	m.yieldW = false
	codec := NewServerCodec(&zzBytesCodec{}, nil, m, true, 64)
	method := []string{"S.Echo", "S.EchoCtx"}[vChoose("handler", 1+full)]
	vGo("server", func() { s.ServeCodec(codec) })
	args := make([][]byte, n)
	for i := 0; i < n; i++ {
		args[i] = []byte{byte(0x41 + i), byte(0x61 + i)}
		m.deliver(zzRequest(uint64(i+1), nil, method, args[i]))
		vYield()
	}
	vQuiesce()
	m.fail(io.EOF)
	vAtEnd(func() {
		res := zzDecodeResponses(m)
		vAssert(len(res) == n, "one-response-per-request")
		for _, r := range res {
			if r.Seq >= 1 && r.Seq <= uint64(n) {
				vAssert(r.Error == "" && vEqBytes(r.Reply, zzReplyFor(args[r.Seq-1])), "reply-of-own-args")
			}
		}
		vReach("end")
	})
}

// zzH_SRVw: two handlers of one connection finish at the same time: two goroutines call the real
// serverCodec.WriteResponse concurrently (every header encoder). Each response frame must carry its own
// sequence number together with its own reply. Run at the finest granularity (preemption at every
// function call) with one preemption.
func zzH_SRVw() {
	var enc Encoder
	switch vChoose("header-encoder", 3) {
	case 1:
		enc = NewHeaderEncoder("pb")()
	case 2:
		enc = NewHeaderEncoder("code")()
	}
	m := newZZMsgs(8)
	m.yieldW = false
	codec := NewServerCodec(&zzBytesCodec{}, enc, m, true, 64)
	r1, r2 := []byte{0x61, 0x61}, []byte{0x62}
	vGo("writer", func() {
		codec.WriteResponse(&Context{Seq: 1, upgrade: &upgrade{}}, &r1)
	})
	codec.WriteResponse(&Context{Seq: 2, upgrade: &upgrade{}}, &r2)
	vQuiesce()
	res := zzDecodeResponsesEnc(m, enc)
	vAssert(len(res) == 2, "one-response-per-request")
	for _, r := range res {
		switch r.Seq {
		case 1:
			vAssert(vEqBytes(r.Reply, r1), "reply-of-own-args")
		case 2:
			vAssert(vEqBytes(r.Reply, r2), "reply-of-own-args")
		default:
			vAssert(false, "answered-exactly-once")
		}
	}
	if len(res) == 2 {
		vAssert(res[0].Seq != res[1].Seq, "answered-exactly-once")
	}
	vReach("end")
}
