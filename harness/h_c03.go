package rpc

import "io"

// ---- C03 (connection loss fails calls fast) and the Conn part of C20 (Close releases, idempotent) ----

// zzH_C03: K blocking callers (Call or Ping) on one Conn; a correct server answers the first A of the
// requests it received and then the connection is cut (peer EOF, read error, or local Close) without
// any pause between the last response and the cut; a late call follows.
func zzH_C03() {
	K := vParam("c03.K", 2)
	m := newZZMsgs(8)
	m.out = make(chan []byte, 8)
	conn := NewConnWithCodec(NewClientCodec(&zzBytesCodec{}, nil, m, 64))
	mode := vChoose("mode", 3)
	switch mode {
	case 1:
		conn.directIO = true
		vTag("sig:directIO")
	case 2:
		conn.SetPipelining(true)
		vTag("sig:pipelining")
	}
	errs := make([]error, K)
	returned := make([]bool, K)
	replies := make([][]byte, K)
	isPing := make([]bool, K)
	for i := 0; i < K; i++ {
		i := i
		isPing[i] = vParam("c03.pings", 1) == 1 && vChoose("kind", 2) == 1
		vGo("caller", func() {
			if isPing[i] {
				errs[i] = conn.Ping()
			} else {
				a := []byte{byte(0x60 + i)}
				errs[i] = conn.Call("S.Echo", &a, &replies[i])
			}
			returned[i] = true
		})
	}
	// the server sees the K requests (in whatever order they were written)
	reqs := make([]pbRequest, K)
	owner := make([]int, K)
	for j := 0; j < K; j++ {
		f := <-m.out
		reqs[j].Unmarshal(f)
		owner[j] = -1
		for i := 0; i < K; i++ {
			if !isPing[i] && len(reqs[j].Args) == 1 && reqs[j].Args[0] == byte(0x60+i) {
				owner[j] = i
			}
		}
	}
	A := vChoose("answered", K+1)
	answered := make([]bool, K)
	answeredPings := 0
	for j := 0; j < A; j++ {
		var reply []byte
		if len(reqs[j].Upgrade) == 0 {
			reply = zzReplyFor(reqs[j].Args)
		}
		m.deliver(zzResponse(reqs[j].Seq, "", reply))
		if owner[j] >= 0 {
			answered[owner[j]] = true
		} else {
			answeredPings++ // pings are indistinguishable: they are counted
		}
	}
	cut := vChoose("cut", 3)
	switch cut {
	case 0:
		m.fail(io.EOF)
	case 1:
		m.fail(errZZRead)
	case 2:
		conn.Close()
	}
	vQuiesce()
	// a call started after the cut fails at once with ErrShutdown and writes nothing
	w0 := m.nWrites
	a := []byte{0x7f}
	var r []byte
	lateErr := conn.Call("S.Echo", &a, &r)
	vAssert(lateErr == ErrShutdown, "late-call-fails-with-ErrShutdown")
	vAssert(m.nWrites == w0, "late-call-writes-nothing")
	c1 := conn.Close()
	c2 := conn.Close()
	if cut == 2 {
		vAssert(c1 == ErrShutdown, "second-close-reports-ErrShutdown")
	}
	vAssert(c2 == ErrShutdown, "repeated-close-reports-ErrShutdown")
	vAtEnd(func() {
		okPings := 0
		for i := 0; i < K; i++ {
			vAssert(returned[i], "no-caller-hangs")
			if isPing[i] {
				if errs[i] == nil {
					okPings++
				} else if cut != 1 {
					vAssert(errs[i] == ErrShutdown, "orderly-end-is-ErrShutdown")
				}
				continue
			}
			if answered[i] && cut != 2 {
				vAssert(errs[i] == nil, "response-received-before-cut-completes-successfully")
				if !isPing[i] {
					vAssert(vEqBytes(replies[i], []byte{0x52, byte(0x60 + i)}), "own-reply")
				}
			} else if !answered[i] {
				vAssert(errs[i] != nil, "outstanding-call-fails")
				if cut != 1 {
					vAssert(errs[i] == ErrShutdown, "orderly-end-is-ErrShutdown")
				}
			}
		}
		if cut != 2 {
			vAssert(okPings == answeredPings, "response-received-before-cut-completes-successfully")
		} else {
			vAssert(okPings <= answeredPings, "unanswered-ping-fails")
		}
		vAssert(m.nCloses >= 1, "socket-closed")
		vAssert(vBlocked() == 0, "every-goroutine-exits")
		vReach("end")
	})
}

// zzH_C20srv: a non-poll server with two accepted connections (one idle, one with a request in
// flight); Server.Close and the peers' disconnects happen in either order; Listen returns, every
// accepted connection is closed and every goroutine exits; repeated Close returns nil.
func zzH_C20srv() {
	log := &zzLog{}
	s, _ := zzNewServer(log, vChoose("pipelining", 2) == 1, vChoose("directIO", 2) == 1, false, false)
	lis := newZZListener()
	m1, m2 := newZZMsgs(8), newZZMsgs(8)
	m1.yieldW, m2.yieldW = false, false
	lis.conns <- &zzConn{m: m1}
	lis.conns <- &zzConn{m: m2}
	listenReturned := false
	vGo("listen", func() {
		s.listen(&zzSocket{lis: lis}, "zz", func(messages socket_Messages) ServerCodec {
			return NewServerCodec(&zzBytesCodec{}, nil, messages, s.directIO, 64)
		})
		listenReturned = true
	})
	vQuiesce()
	m1.deliver(zzRequest(1, nil, "S.Echo", []byte{0x41}))
	vQuiesce()
	if vChoose("order", 2) == 0 {
		vAssert(s.Close() == nil, "close-returns-nil")
		vQuiesce()
		vAssert(listenReturned, "close-makes-listen-return")
		m1.fail(io.EOF)
		m2.fail(io.EOF)
	} else {
		m1.fail(io.EOF)
		m2.fail(io.EOF)
		vQuiesce()
		vAssert(s.Close() == nil, "close-returns-nil")
	}
	vQuiesce()
	vAssert(s.Close() == nil, "second-close-returns-nil")
	vAtEnd(func() {
		vAssert(listenReturned, "listen-returns-after-close")
		vAssert(m1.nCloses >= 1 && m2.nCloses >= 1, "accepted-connections-closed")
		vAssert(vBlocked() == 0, "every-goroutine-exits")
		res := zzDecodeResponses(m1)
		vAssert(len(res) == 1 && res[0].Seq == 1 && vEqBytes(res[0].Reply, []byte{0x52, 0x41}), "request-before-close-answered")
		vReach("end")
	})
}
