#!/bin/sh
# dev aid: mut.sh <file> <sed-expr> <harness> [extra ssasym args]  -- applies a mutation to /repo, runs a harness, reverts
f=$1; e=$2; h=$3; shift 3
cd /repo && sed -i "$e" $f && git diff --stat | tail -1
(cd /repo && go build ./... 2>&1 | head -3)
cd /verif && ./bin/ssasym run -h $h -j 16 -gran 0 -P 0 -timeout 200 -maxviol 3 "$@" 2>&1 | grep -E "^harness|ABORT|^  x"
cd /repo && git checkout -- . 
